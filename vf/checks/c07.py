"""C07 — the operative config records exactly what Gin supplied and suffices to replay."""
import math
import re

from vf import models, probes, snap
from vf.checks import c04
from vf.teq import canon, teq

ID = 'C07'
LEVEL = 'exploration'
RULE = ('two consumer probes (random signature incl. defaults, kw-only, allow/deny lists, non-representable defaults; fn/init/method) with scoped '
        'bindings to value trees (literals, @prov(), @s/prov(), @prov, %macro, %CONSTANT, programmatic non-representable objects), provider graphs, '
        'call histories of 1-8 calls under random scopes with per-parameter caller override, optional rebinding between calls; oracle = '
        'operative-record model; operative_config_str() is re-parsed by the real ConfigParser (recording delegate) + section headers and must equal '
        'the model\'s representable subset exactly (sections, parameters, values, macro section, no constant section); when everything supplied is '
        'representable: clear, parse that text, repeat the calls -> same arguments, same provider runs, same text. '
        'Extension: consumers also __new__ classes, with **kwargs (bound names outside the signature) and *rest, signature defaults of gin.REQUIRED; '
        'probe bodies that call other configurables (depth <= 3, same or other configurable, under an added or a replaced scope; a configurable '
        'subclass calling super().__init__ of its configurable base) and bodies that raise Exception / BaseException after recording; macros defined '
        'by macros, reference scopes of several components, bindings added in mid-history, dotted scope components (recorded finding); the text is '
        'read and compared after every step (1/8 of the cases) or after one step (1/4), and under other (max_line_length, continuation_indent); '
        'every binding line must sit under the header of its own (scope, configurable), no header and no line twice, macro definitions outside the '
        'parameter sections. '
        'Registration histories (15% of the cases): a per-case provider referenced from bindings / macros / other providers under a then-unique short, '
        'partial or complete selector; in mid-history a same-named configurable (other module, any API, fn or class; optionally called; optionally '
        'also a twin of a consumer) is registered; references in the text are compared by the configurable they resolve to and must resolve uniquely. '
        'distinct = (signature features, tree features, scopes used, override pattern, history length)')
TIERS = {
    'quick': {'workers': 8, 'cases': 1350, 'timeout': 600},
    'thorough': {'workers': 16, 'cases': 14000, 'timeout': 3000},
}
# further workloads for the property's online monitor (vf/online.py): the repository's tests and other checks' generated cases
ONLINE = {'which': ['rtop'], 'foreign': ['C01', 'C04', 'C05', 'C10', 'C11', 'C12', 'C17', 'C20'], 'n': {'quick': 30, 'thorough': 400}}
REQUIRED_BUCKETS = ['section:none-marker', 'section:scoped', 'section:provider', 'section:macro', 'section:constant-omitted', 'param:default-shown',
                    'param:binding-shown', 'param:caller-supplied-omitted', 'param:caller-supplied-once-gin-once', 'param:denylisted-default-omitted',
                    'param:nonrepresentable-omitted', 'param:nonrepresentable-default-omitted', 'replay:done', 'history:rebind', 'history:5+calls',
                    'shape:method', 'shape:init', 'shape:fn', 'override:keyword-on-reference', 'never-called-configurable-bound', 'history:failed-call-on-unbound-macro', 'history:rebind-equal-but-different', 'override:gin.REQUIRED-marker', 'history:failed-call-after-successful-call']
REQUIRED_BUCKETS = REQUIRED_BUCKETS + ['history:consumer-mutated-supplied-container', 'history:macro-redefined-after-use']
# extension wave (audit gaps): nested calls, raising bodies, **kwargs / *rest consumers, text read after every step, signature default gin.REQUIRED,
# __new__ classes, macro defined by a macro, multi-component reference scopes, bindings added in mid-history, format parameters, section structure
REQUIRED_BUCKETS = REQUIRED_BUCKETS + ['history:nested-call', 'history:nested-call-depth2', 'history:nested-call-same-configurable', 'history:nested-call-under-added-scope',
                                       'history:nested-call-under-replaced-scope', 'history:super-init-of-configurable-base', 'history:body-raises-Exception',
                                       'history:body-raises-BaseException', 'history:nested-body-raises', 'param:varkw-name-shown', 'param:varkw-name-caller-supplied-omitted',
                                       'call:extra-positional-rest', 'param:signature-required-filled-from-binding', 'shape:new', 'section:macro-defined-by-macro',
                                       'ref:scope-of-several-components', 'history:binding-added-after-default-recorded', 'text:read-after-every-step',
                                       'text:read-after-rebind-before-next-call', 'text:format-variant', 'text:format-variant-multiline-value', 'replay:of-format-variant',
                                       'structure:binding-lines-under-own-header', 'scope:dotted-component']
ENABLE_NESTED = True      # probe bodies that call other configurables (and a configurable subclass calling super().__init__)
ENABLE_RAISING = True     # probe bodies that raise after recording (Exception and BaseException)
ENABLE_VARKW = True       # consumers with **kwargs (bindings to names outside the signature) and *rest (extra positional arguments)
ENABLE_SIG_REQUIRED = True  # a signature default of gin.REQUIRED
ENABLE_MID_READS = True   # operative_config_str() read and compared after every step of the history
ENABLE_FORMATS = True     # operative_config_str(max_line_length, continuation_indent) variants
# a scope component with a period (config_scope accepts 'c.d'): the text printed for it does not parse = recorded finding
# 'dotted-scope-component-printed-but-not-parseable'; reported under exactly that key, and only if nothing else is wrong with the text
ENABLE_DOTTED_SCOPES = True
DOT = '_DOT_'
# registration is part of a history: a provider (fresh name per case) is referenced by bindings / macros / other providers under a selector that
# is unique when they are made (short name, partial or complete selector); in mid-history another configurable whose selector ends in the same
# name is registered (other module, any API, function or class; optionally called itself, optionally also a same-named twin of a consumer).
# The record is untouched by that: the text taken afterwards must still list every Gin-supplied reference, spelled so that it identifies its
# target, and must replay.  References are compared by (scope, configurable they resolve to, evaluated), not by spelling.
ENABLE_LATE_REGISTRATION = True
LATE = 'C7LATE'            # placeholder of the per-case provider name in generated cases (run_case substitutes the registered name)
LATE_MODULE = 'c7l.alpha'
LATE_SPELLINGS = [LATE, LATE, 'alpha.' + LATE, LATE_MODULE + '.' + LATE]
# module of the twin: the short name / the short name and 'alpha.<name>' / every proper suffix incl. the complete selector's own spelling matches both
TWIN_MODULES = ['c7l.beta', 'c7k.alpha', 'zz.c7l.alpha']
REQUIRED_BUCKETS = REQUIRED_BUCKETS + ['history:same-named-configurable-registered-after-reference-was-bound',
                                       'ref:recorded-reference-written-with-now-ambiguous-selector', 'replay:after-late-registration',
                                       'history:same-named-twin-called', 'history:same-named-twin-of-consumer-registered']
FORMATS = [[12, 0], [1, 7], [200, 2], [30, 8], [79, 4]]
SUB, BASE = 2, 3          # indices of the fixed configurable subclass / base class in a case's probe list
ORACLE_COUNTERS = ['oracle_evals', 'texts_compared', 'replays']
_S = {}
HDR = re.compile(r'^# Parameters for (.+):$')


def setup(ctx):
  import gin
  c04.setup(ctx)
  _S['provs'] = c04._S['provs']
  _S['by_pid'] = c04._S['by_pid']
  gin.constant('c7.mod.CONST_A', ['const-object'])
  gin.constant('c7.other.CONST_B', probes.Opaque('constB'))
  _S['never'] = probes.build({'shape': 'fn', 'api': 'external', 'name': 'c7never', 'module': 'c7', 'pos': [], 'dflt': [['z', 1]], 'varargs': False,
                              'kwonly': [], 'varkw': False})
  _S['plan'] = {}
  _S['fixed'] = build_fixed()


class C7Error(Exception):
  """Raised by a probe body (after it recorded what it received)."""


class C7Abort(BaseException):
  """Raised by a probe body: not an Exception."""


BASE_SPEC = {'shape': 'init', 'api': 'configurable', 'name': 'c7Base', 'module': 'c7x', 'pos': [], 'dflt': [['b', 1], ['shared', 'base-shared'], ['w', None]],
             'varargs': False, 'kwonly': [], 'varkw': False}
SUB_SPEC = {'shape': 'init', 'api': 'configurable', 'name': 'c7Sub', 'module': 'c7x', 'pos': [], 'dflt': [['s', 2], ['shared', 'sub-shared']],
            'varargs': False, 'kwonly': [['k', True, 'sub-k']], 'varkw': False}


def body(pid, via=None):
  """What a probe body does after recording: the planned nested call (through `via` = super().__init__ for the subclass), then the planned failure."""
  import gin
  plan = _S['plan'].pop(pid, None)
  n = plan['nest'] if plan else None
  if n is None:
    if via is not None:
      via([], {})
  elif n['how'] is None:
    execute(n, via)
  else:
    # 'rel': a name appended to the active scope; 'abs': a list, which replaces the active scope
    with gin.config_scope(n['how'][1] if n['how'][0] == 'rel' else list(n['how'][1])):
      execute(n, via)
  if plan and plan['raise']:
    raise (C7Error if plan['raise'] == 'exc' else C7Abort)('the body fails after it recorded its arguments')


def execute(prep, via=None):
  p = prep['p']
  _S['plan'][p.pid] = {'nest': prep['nest'], 'raise': prep['raise']}
  try:
    if via is not None:
      via(list(prep['P']), dict(prep['K']))
    else:
      probes.call_probe(p, list(prep['P']), dict(prep['K']))
  finally:
    _S['plan'].pop(p.pid, None)


def build_hooked(spec):
  """probes.build, but the body continues with body(pid) after it recorded (the recorder is the first thing every probe body calls)."""
  R = probes.RECORDER
  plain = R.rec

  def rec(pid, received):
    r = plain(pid, received)
    body(pid)
    return r
  R.rec = rec
  try:
    return probes.build(spec)
  finally:
    del R.rec


def build_fixed():
  """A configurable class and a configurable subclass whose constructor calls super().__init__ (both record, both follow the plan)."""
  import gin
  rec = probes.RECORDER.rec

  @gin.configurable('c7Base', module='c7x')
  class Base:

    def __init__(self, b=1, shared='base-shared', w=None):
      rec('c7base', {'b': b, 'shared': shared, 'w': w})
      body('c7base')

  @gin.configurable('c7Sub', module='c7x')
  class Sub(Base):

    def __init__(self, s=2, shared='sub-shared', *, k='sub-k'):
      rec('c7sub', {'s': s, 'shared': shared, 'k': k})
      body('c7sub', via=lambda P, K: super(Sub, self).__init__(*P, **K))

  out = []
  for spec, pid, conf in ((SUB_SPEC, 'c7sub', Sub), (BASE_SPEC, 'c7base', Base)):
    p = probes.Probe()
    p.spec, p.pid, p.name, p.module, p.conf, p.original = spec, pid, spec['name'], spec['module'], conf, conf
    p.selector = '%s.%s' % (p.module, p.name)
    p.key_selector = p.name
    out.append(p)
  return out


def representable(v):
  t = type(v)
  if t in (int, str, bytes, bool, type(None)):
    return True
  if t is float:
    return math.isfinite(v)
  if t in (list, tuple):
    return all(representable(x) for x in v)
  if t is dict:
    return all(representable(k) and representable(x) for k, x in v.items())
  return False


def tree_repr(t):
  """None if the tree has no literal form, else the value as the recording delegate would read it back."""
  k = t[0]
  if k == 'lit':
    return ('ok', t[1]) if representable(t[1]) else None
  if k == 'obj':
    return None
  if k == 'ref':
    return ('ok', ('@ref', '/'.join(t[2] + [prov(t[1]).selector]), bool(t[3])))   # the configurable it names, whatever the spelling
  if k == 'macro':
    return ('ok', ('%macro', t[1]))
  if k == 'const':  # a constant reference is printed under the constant's complete name
    return ('ok', ('%macro', {'CONST_A': 'c7.mod.CONST_A', 'mod.CONST_A': 'c7.mod.CONST_A', 'CONST_B': 'c7.other.CONST_B'}[t[1]]))
  if k in ('list', 'tuple'):
    items = [tree_repr(x) for x in t[1]]
    if any(i is None for i in items):
      return None
    return ('ok', [i[1] for i in items] if k == 'list' else tuple(i[1] for i in items))
  items = [(tree_repr(a), tree_repr(b)) for a, b in t[1]]
  if any(a is None or b is None for a, b in items):
    return None
  return ('ok', {a[1]: b[1] for a, b in items})


def prov(name):
  """The provider probe a reference name (short, partial or complete selector) was written for."""
  base = name.rsplit('.', 1)[-1]
  late = _S.get('late')
  if late and base == late['name']:
    return late['p']
  return _S['provs'][base]


def map_refs(t, f):
  k = t[0]
  if k == 'ref':
    return f(t)
  if k in ('list', 'tuple'):
    return [k, [map_refs(x, f) for x in t[1]]]
  if k == 'dict':
    return [k, [[map_refs(a, f), map_refs(b, f)] for a, b in t[1]]]
  return t


def completed(t):
  """`t` as it has to be written once the twin is registered: references to the case's provider by complete selector."""
  late = _S.get('late')
  if not late or late['twin'] is None:
    return t
  return map_refs(t, lambda r: ['ref', late['p'].selector, r[2], r[3]] if r[1].rsplit('.', 1)[-1] == late['name'] else r)


def relabel(x, old, new):
  if isinstance(x, str):
    return x.replace(old, new) if old in x else x
  if isinstance(x, list):
    return [relabel(y, old, new) for y in x]
  if isinstance(x, tuple):
    return tuple(relabel(y, old, new) for y in x)
  if isinstance(x, dict):
    return {relabel(k, old, new): relabel(v, old, new) for k, v in x.items()}
  return x


def resolve_refs(v, reg, bad):
  """A value read back from the text with every reference named by the complete selector it resolves to (unresolvable ones -> bad)."""
  if type(v) is tuple and len(v) == 3 and v[0] == '@ref' and isinstance(v[1], str):
    sc, _, sel = v[1].rpartition('/')
    try:
      ent = reg.get_match(sel)
    except KeyError:
      ent = None
    if ent is None:
      bad.append(v[1])
      return v
    return ('@ref', (sc + '/' if sc else '') + ent.selector, v[2])
  if type(v) is list:
    return [resolve_refs(x, reg, bad) for x in v]
  if type(v) is tuple:
    return tuple(resolve_refs(x, reg, bad) for x in v)
  if type(v) is dict:
    return {resolve_refs(a, reg, bad): resolve_refs(b, reg, bad) for a, b in v.items()}
  return v


def tree_value(t, objs):
  """Materialise a tree into the Python value to bind programmatically (references via gin's parser)."""
  from gin import config as gc
  k = t[0]
  if k == 'lit':
    return t[1]
  if k == 'obj':
    return objs.setdefault(t[1], {'opaque': probes.Opaque('o'), 'set': {1, 2}, 'nan': float('nan'), 'inf': float('inf'), 'lambda': (lambda: 0)}[t[1]])
  if k in ('ref', 'macro', 'const'):
    return gc.parse_value(c04.tree_text(t) if k != 'const' else '%' + t[1])
  if k == 'list':
    return [tree_value(x, objs) for x in t[1]]
  if k == 'tuple':
    return tuple(tree_value(x, objs) for x in t[1])
  return {tree_value(a, objs): tree_value(b, objs) for a, b in t[1]}


def gen_tree(rng, depth, late=False):
  r = rng.random()
  if depth <= 0 or r < 0.55:
    k = rng.random()
    if k < 0.4:
      return ['lit', rng.choice([1, 'x', None, 2.5, -0.0, True, [1, 2], {'a': [0]}, (3,), '', 'a"b\'c', b'by', 1e300, {1: {2: (3, 'four')}}, 'long ' * 30])]
    if k < 0.75:
      scopes = [rng.choice(['s1', 's2'])] if rng.random() < 0.35 else []
      if scopes and rng.random() < 0.3:
        scopes = rng.choice([['s1', 's2'], ['s2', 's1'], ['s1', 's2', 's1']])   # a reference scope of several components
      name = rng.choice(LATE_SPELLINGS) if late and rng.random() < 0.45 else 'prov%d' % rng.randrange(3)
      return ['ref', name, scopes, rng.random() < 0.7]
    if k < 0.86:
      return ['macro', rng.choice(['m0', 'mm/m1', 'm2'])]
    if k < 0.92:
      return ['const', rng.choice(['CONST_A', 'mod.CONST_A', 'CONST_B'])]
    return ['obj', rng.choice(['opaque', 'set', 'nan', 'inf', 'lambda'])]
  n = rng.choice([1, 2, 3])
  if r < 0.8:
    return ['list', [gen_tree(rng, depth - 1, late) for _ in range(n)]]
  if r < 0.9:
    return ['tuple', [gen_tree(rng, depth - 1, late) for _ in range(n)]]
  return ['dict', [[['lit', 'k%d' % i], gen_tree(rng, depth - 1, late)] for i in range(n)]]


def is_late(t):
  return t[1].rsplit('.', 1)[-1] == LATE


def has(t, kinds):
  if t[0] in kinds:
    return True
  if t[0] in ('list', 'tuple'):
    return any(has(x, kinds) for x in t[1])
  if t[0] == 'dict':
    return any(has(a, kinds) or has(b, kinds) for a, b in t[1])
  return False


def gen_consumer(rng, shape):
  spec = probes.gen_spec(rng, shapes=[shape], lists=True, max_pos=2)
  spec['varargs'] = ENABLE_VARKW and rng.random() < 0.2      # extra positional arguments go to *args
  spec['varkw'] = ENABLE_VARKW and rng.random() < 0.25       # names outside the signature go to **kwargs
  if spec['varkw']:
    spec['extra'] = ['e0', 'e1']
  for d in spec['dflt']:
    d[1] = rng.choice(['dflt-' + d[0], 3, [1, 2], {'__obj__': 'od'}, None, (1, 'x')])
  for k in spec['kwonly']:
    if k[1]:
      k[2] = rng.choice(['dflt-' + k[0], 0.5, {'__obj__': 'ok'}])
  if ENABLE_SIG_REQUIRED and rng.random() < 0.2:
    # a signature default of gin.REQUIRED (only on a configurable parameter: anything else is refused at registration)
    cands = [d for d in spec['dflt'] if is_configurable(spec, d[0])] + [k for k in spec['kwonly'] if k[1] and is_configurable(spec, k[0])]
    if cands:
      rng.choice(cands)[-1] = {'__required__': 1}
  return spec


def is_configurable(spec, x):
  allow, deny = spec.get('allow'), spec.get('deny')
  return not ((allow and x not in allow) or (deny and x in deny))


def sig_required(spec, x):
  v = probes.default_values(spec).get(x)
  return isinstance(v, dict) and '__required__' in v


def has_no_default(spec, x):
  """Somebody has to supply x: no default in the signature, or the default is gin.REQUIRED."""
  return x in spec['pos'] or any(k[0] == x and not k[1] for k in spec['kwonly']) or sig_required(spec, x)


def bindable_names(spec):
  return [x for x in probes.all_named(spec) + list(spec.get('extra', [])) if is_configurable(spec, x)]


def gen_call(rng, specs, depth=0, parent=None):
  """One call entry ['call', ci, scope, over, then_fail, extras]; nested entries have scope None | ['rel', name] | ['abs', [names]]."""
  if parent == SUB:
    ci = BASE                # the subclass constructor always calls super().__init__
  elif depth:
    ci = rng.choice([0, 1, 0, 1, BASE, SUB])
  else:
    ci = rng.choice([0, 1] * 5 + [SUB, BASE]) if ENABLE_NESTED else rng.randrange(2)
  spec = specs[ci]
  over = {}
  for x in probes.all_named(spec) + list(spec.get('extra', [])):
    if rng.random() < 0.3:
      over[x] = rng.choice(['kw', 'kw', 'pos', 'req-kw', 'req-pos'])
  if depth:
    scope = rng.choice([None, None, ['rel', 'a'], ['rel', 'b'], ['rel', 'n'], ['rel', 'a/b'], ['abs', ['a']], ['abs', []], ['abs', ['b', 'c']]])
  else:
    scope = rng.choice([[], [], ['a'], ['a', 'b'], ['b'], ['c'], ['a', 'c'], ['a', 'b', 'c'], ['a', 'b', 'a', 'b']])
  if ENABLE_DOTTED_SCOPES and rng.random() < 0.008:
    scope = rng.choice([['c.d'], ['a', 'c.d'], ['c.d', 'b']]) if not depth else ['rel', 'c.d']
  ex = {}
  if ci == SUB or (ENABLE_NESTED and depth < 2 and rng.random() < (0.22 if depth == 0 else 0.3)):
    ex['nest'] = gen_call(rng, specs, depth + 1, ci)
  if ENABLE_RAISING and rng.random() < 0.1:
    ex['raise'] = rng.choice(['exc', 'base'])
  if spec.get('varargs') and rng.random() < 0.3:
    ex['rest'] = True
  return ['call', ci, scope, over, depth == 0 and rng.random() < 0.15, ex]


def iter_cases(ctx, rng, n):
  for i in range(n):
    specs = [gen_consumer(rng, ['fn', 'init', 'method', 'new'][i % 4]), gen_consumer(rng, rng.choice(['fn', 'init', 'new']))]
    allspecs = specs + [SUB_SPEC, BASE_SPEC]
    binds = []
    late = None
    if ENABLE_LATE_REGISTRATION and rng.random() < 0.15:
      late = {'api': rng.choice(['configurable', 'register', 'external']), 'twin_api': rng.choice(['configurable', 'register', 'external']),
              'twin_shape': rng.choice(['fn', 'fn', 'init']), 'twin_module': rng.choice(TWIN_MODULES),
              'cons': rng.choice([None, None, 0, 1]), 'cons_module': rng.choice(['c7k.m', 'zz.vfp.m', 'c7l.beta']),
              'call': rng.choice([None, None, [], ['a'], ['a', 'b']])}
    for ci, spec in enumerate(allspecs):
      if ci >= 2 and not ENABLE_NESTED:
        break
      for x in bindable_names(spec):
        for sc in rng.sample(['', 'a', 'a/b', 'b'], rng.choice([0, 1, 1, 2] if ci < 2 else [0, 0, 1])):
          binds.append([ci, sc, x, gen_tree(rng, rng.choice([0, 1, 2]), bool(late))])
    graph = {'prov1': rng.choice([None, ['ref', 'prov0', [], True], ['ref', 'prov0', ['g1'], True]]),
             'prov2': rng.choice([None, None, ['ref', 'prov1', [], True], ['list', [['ref', 'prov0', [], True], ['lit', 5]]]])}
    macros = {'m0': rng.choice([['ref', 'prov0', [], True], ['lit', [1, [2]]], ['lit', 'mv']]),
              'mm/m1': rng.choice([['ref', 'prov2', [], True], ['list', [['ref', 'prov0', [], True]]], ['lit', 7]]),
              # a macro whose value is (or contains) another macro
              'm2': rng.choice([['macro', 'm0'], ['macro', 'mm/m1'], ['list', [['macro', 'm0'], ['lit', 3]]], ['dict', [[['lit', 'k'], ['macro', 'mm/m1']]]]])}
    if late:
      # the case's own provider: bound or not, reached through other providers and macros as well
      graph[LATE] = rng.choice([None, None, ['lit', 7], ['ref', 'prov0', [], True]])
      if rng.random() < 0.25:
        graph['prov2'] = rng.choice([['ref', rng.choice(LATE_SPELLINGS), [], True], ['list', [['ref', rng.choice(LATE_SPELLINGS), ['g1'], False], ['lit', 5]]]])
      if rng.random() < 0.3:
        macros['m0'] = rng.choice([['ref', rng.choice(LATE_SPELLINGS), [], True], ['list', [['ref', rng.choice(LATE_SPELLINGS), [], False]]]])
      if not any(any_ref(b[3], is_late) for b in binds if b[0] < 2):
        t = rng.choice([['ref', rng.choice(LATE_SPELLINGS), [], rng.random() < 0.7], ['list', [['lit', 1], ['ref', rng.choice(LATE_SPELLINGS), ['s1'], True]]]])
        own = [b for b in binds if b[0] < 2]
        if own:
          rng.choice(own)[3] = t
        else:
          ci = rng.randrange(2)
          names = bindable_names(specs[ci])
          if names:
            binds.append([ci, '', rng.choice(names), t])
    history = []
    for _ in range(rng.choice([1, 2, 3, 4, 5, 6, 8])):
      if rng.random() < 0.12 and binds:
        b = rng.choice(binds)
        history.append(['rebind', b[0], b[1], b[2], gen_tree(rng, 1), rng.random() < 0.5])
        continue
      if rng.random() < 0.08:
        # a binding that did not exist so far is added in mid-history (the default was shown until then)
        ci = rng.randrange(2)
        free = [(x, sc) for x in bindable_names(specs[ci]) for sc in ['', 'a', 'b'] if not any(b[0] == ci and b[1] == sc and b[2] == x for b in binds)]
        if free:
          x, sc = rng.choice(free)
          history.append(['rebind', ci, sc, x, gen_tree(rng, 1), False])
          continue
      history.append(gen_call(rng, allspecs))
    if rng.random() < 0.25:
      # a macro is given another value between calls, often after the last one: the record keeps what the calls were given
      at = len(history) if rng.random() < 0.6 else rng.randrange(len(history) + 1)
      history.insert(at, ['remacro', rng.choice(['m0', 'mm/m1']), rng.choice([['lit', 'redefined'], ['lit', [9, [8]]], ['ref', 'prov0', [], True]]), rng.random() < 0.5])
    if late:
      # the same-named configurable arrives at any point: before the first call, between calls, after the last one
      history.insert(rng.randrange(len(history) + 1), ['register', late])
    # when the text is read and compared in mid-history: after every step / after one step / only at the end
    mid = rng.choice(['all', 'one', 'one', None, None, None, None, None]) if ENABLE_MID_READS else None
    yield {'specs': specs, 'binds': binds, 'graph': graph, 'macros': macros, 'history': history, 'mid': mid, 'mid_at': rng.randrange(len(history)),
           'fmt': rng.choice(FORMATS + [None] * 10) if ENABLE_FORMATS else None}


class OpModel:
  """Operative-record model."""

  def __init__(self, case, plist):
    self.case, self.plist = case, plist
    self.op = {}         # (scope_str, selector) -> {param: tree | ['lit', default]}
    self.macros_used = {}
    self.consts_used = set()
    self.bind = {}       # (scope, selector) -> {param: tree}
    self.prov_calls = []
    self.macros = dict(case['macros'])    # current definitions (a history may re-define them)
    self.calls_log = []  # (consumer index, scope, completed override pattern) of every call made, nested ones included

  def record(self, scope, selector, vals):
    self.op.setdefault(('/'.join(scope), selector), {}).update(vals)

  def evaluate(self, t, ambient):
    k = t[0]
    if k == 'ref' and t[3]:
      self.call_provider(t[1], t[2] or ambient)
    elif k == 'macro':
      self.macros_used[t[1]] = self.macros[t[1]]
      self.evaluate(self.macros[t[1]], t[1].split('/'))
    elif k == 'const':
      self.consts_used.add(t[1])
    elif k in ('list', 'tuple'):
      for x in t[1]:
        self.evaluate(x, ambient)
    elif k == 'dict':
      for a, b in t[1]:
        self.evaluate(a, ambient)
        self.evaluate(b, ambient)

  def call_provider(self, name, scope):
    name = name.rsplit('.', 1)[-1]      # (a reference may be written with a partial or complete selector)
    self.prov_calls.append((name, tuple(scope)))
    sel = prov(name).selector
    vals = {'t': ['lit', 'dflt-t']}
    g = self.case['graph'].get(name)
    if g is not None:
      vals['t'] = g
    self.record(scope, sel, vals)
    if g is not None:
      self.evaluate(g, list(scope))

  def call_consumer(self, ci, scope, supplied):
    p = self.plist[ci]
    spec = p.spec
    allow, deny = spec.get('allow'), spec.get('deny')
    vals = {}
    for n, v in probes.default_values(spec).items():
      if (allow and n not in allow) or (deny and n in deny):
        continue
      if isinstance(v, dict) and ('__obj__' in v or '__required__' in v):
        continue  # no literal form (an opaque object; gin.REQUIRED)
      vals[n] = ['lit', v]
    applicable = models.overlay(self.bind, p.selector, scope)
    vals.update(applicable)
    for n in supplied:
      vals.pop(n, None)
    if spec['shape'] == 'method':
      # constructing the instance is itself a configurable call (class K with default c=0)
      self.record(scope, p.cls_selector, {'c': ['lit', 0]})
    self.record(scope, p.selector, vals)
    gin_supplied = {n: t for n, t in applicable.items() if n not in supplied}
    for n, t in gin_supplied.items():
      self.evaluate(t, scope)
    return gin_supplied


def parse_operative(text):
  """headers [(line, name)], statements [(line, scope, selector, arg, value)] in text order, via the real parser (recording delegate)."""
  from gin import config_parser

  class Rec(config_parser.ParserDelegate):

    def configurable_reference(self, name, evaluate):
      return ('@ref', name, bool(evaluate))

    def macro(self, name):
      return ('%macro', name)

  headers = [(i + 1, HDR.match(l).group(1)) for i, l in enumerate(text.splitlines()) if HDR.match(l)]
  stmts = []
  for st in config_parser.ConfigParser(text, Rec()):
    if isinstance(st, config_parser.BindingStatement):
      stmts.append((st.location.line_num, st.scope, st.selector, st.arg_name, st.value))
  return headers, stmts


def check_text(ctx, model, text, where):
  """The oracle proper: `text` against the operative-record model as it stands.  Returns None if the text could not be compared, else
  {'all_repr': every recorded value has a literal form, 'exp_bind': expected lines}."""
  from gin import config as gc
  ctx.count('texts_compared')
  dotted = sorted({c for sc, _ in model.op for c in sc.split('/') if '.' in c})
  if dotted:
    ctx.bucket('scope:dotted-component')
  try:
    headers, stmts = parse_operative(text)
  except Exception as e:  # pylint: disable=broad-except
    # recorded finding: a section under a scope with a period in a component is printed, but the config language has no such binding key.
    # Only that: with the periods of those components spelled otherwise, the text must parse and is then compared as usual.
    sane = undot(text, dotted) if dotted else None
    try:
      headers, stmts = parse_operative(sane) if sane is not None else (None, None)
    except Exception:  # pylint: disable=broad-except
      headers = None
    if headers is None:
      ctx.check(False, 'operative-config-does-not-parse', 'operative_config_str() %s does not parse: %r\n%s' % (where, e, text[:800]))
      return None
    ctx.check(False, 'dotted-scope-component-printed-but-not-parseable',
              'operative_config_str() %s prints a binding key under scope component(s) %r, which does not parse: %r' % (where, dotted, e), {'text': text[:800]})
    ctx.bucket('scope:dotted-component-text-does-not-parse')
    headers = [(l, h.replace(DOT, '.')) for l, h in headers]
    stmts = [(l, sc.replace(DOT, '.'), sel, arg, v) for l, sc, sel, arg, v in stmts]
  # ---- expected sections
  exp_sections = set()
  exp_bind = {}
  all_repr = True
  for (sc, sel), vals in model.op.items():
    exp_sections.add((sc, sel))
    shown = 0
    for prm, tree in vals.items():
      r = tree_repr(tree)
      if r is None:
        all_repr = False
        ctx.bucket('param:nonrepresentable-omitted')
        continue
      shown += 1
      exp_bind[(sc, sel, prm)] = r[1]
    if not shown:
      ctx.bucket('section:none-marker')
    if sc:
      ctx.bucket('section:scoped')
    if sel.startswith('c4.prov'):
      ctx.bucket('section:provider')
  for m, tree in model.macros_used.items():
    ctx.bucket('section:macro')
    if has(tree, ('macro',)):
      ctx.bucket('section:macro-defined-by-macro')
    r = tree_repr(tree)
    if r is None:
      all_repr = False
    else:
      exp_bind[('MACRO', m, '')] = r[1]
  if model.consts_used:
    ctx.bucket('section:constant-omitted')
  # ---- observed sections, resolved to complete names
  got_sections = set()
  hdr_at = []     # (line, (scope, complete selector))
  for line, h in headers:
    sc, _, sel = h.rpartition('/')
    try:
      ent = gc._REGISTRY.get_match(sel)
    except KeyError:
      ent = None
    if not ctx.check(ent is not None, 'section-header-does-not-resolve', 'section header %r does not resolve to one configurable' % h):
      return None
    ctx.check((sc, ent.selector) not in got_sections, 'operative-section-duplicated',
              '%s: two section headers for %r\n%s' % (where, h, text[:800]))
    got_sections.add((sc, ent.selector))
    hdr_at.append((line, (sc, ent.selector)))
  ctx.check(got_sections == exp_sections, 'operative-sections-differ',
            '%s: sections printed %r, model (called pairs) %r\n%s' % (where, sorted(got_sections - exp_sections), sorted(exp_sections - got_sections), text[:600]))
  got_bind = {}
  structure_ok = True
  for line, sc, sel, arg, v in stmts:
    own = [k for l, k in hdr_at if l < line]
    if not arg:
      key = ('MACRO', (sc + '/' if sc else '') + sel, '')
      # a macro definition is no parameter of any configurable: it does not belong into a parameter section
      structure_ok &= bool(ctx.check(not own, 'macro-definition-inside-a-parameter-section',
                                     '%s: line %d defines macro %s under the header of %r\n%s' % (where, line, key[1], own[-1:], text[:800])))
    else:
      try:
        ent = gc._REGISTRY.get_match(sel)
      except KeyError:
        ent = None
      if ent is None:
        ctx.check(False, 'binding-line-does-not-resolve', 'binding %s/%s.%s does not resolve' % (sc, sel, arg))
        return None
      key = (sc, ent.selector, arg)
      structure_ok &= bool(ctx.check(bool(own) and own[-1] == key[:2], 'binding-line-under-foreign-header',
                                     '%s: line %d binds %r but the nearest header above is for %r\n%s' % (where, line, key, own[-1:], text[:800])))
    structure_ok &= bool(ctx.check(key not in got_bind, 'operative-parameter-listed-twice', '%s: %r is listed twice\n%s' % (where, key, text[:800])))
    bad = []
    got_bind[key] = resolve_refs(v, gc._REGISTRY, bad)
    # (the text is to be parsed as it stands: a reference in it that names no configurable, or several, cannot be replayed)
    ctx.check(not bad, 'reference-in-operative-text-does-not-resolve',
              '%s: %r holds reference(s) %r, which do not resolve to exactly one configurable\n%s' % (where, key, bad, text[:800]))
  if structure_ok and len(hdr_at) > 1 and sum(1 for st in stmts if st[3]) > 1:
    ctx.bucket('structure:binding-lines-under-own-header')
  ga = {k: canon(v) for k, v in got_bind.items()}
  ea = {k: canon(v) for k, v in exp_bind.items()}
  if ga != ea:
    d = snap.diff(ga, ea)
    ctx.check(False, 'operative-parameters-differ', '%s: operative text vs model (printed, expected): %r' % (where, {k: d[k] for k in list(d)[:6]},),
              {'text': text[:1500]})
  else:
    ctx.count('oracle_evals')
  return {'all_repr': all_repr, 'exp_bind': exp_bind, 'dotted': bool(dotted)}


def undot(text, dotted):
  """`text` with the periods inside the scope components `dotted` of headers and binding keys (line starts only) spelled DOT."""
  alt = '|'.join(re.escape(c) for c in dotted)
  pat = re.compile(r'(?m)^((?:# Parameters for )?(?:[A-Za-z_][\w.]*/)*?)(%s)/' % alt)
  for _ in range(8):
    new = pat.sub(lambda m: m.group(1) + m.group(2).replace('.', DOT) + '/', text)
    if new == text:
      break
    text = new
  return text


def prepare(ctx, h, plist, model, phase, ambient):
  """Arguments of one call entry (and of the calls nested in it).  In the first phase the entry is completed in place so that the call is
  well-formed under the bindings that apply in its scope; the replay phase repeats the completed entry."""
  import gin
  _, ci, sc, over = h[:4]
  ex = h[5] if len(h) > 5 else {}
  p = plist[ci]
  spec = p.spec
  if ambient is None:
    scope, how = list(sc), None
  elif sc is None:
    scope, how = list(ambient), None
  elif sc[0] == 'rel':
    scope, how = list(ambient) + sc[1].split('/'), sc
  else:
    scope, how = list(sc[1]), sc
  pos = probes.positional_names(spec)
  names = probes.all_named(spec) + list(spec.get('extra', []))
  rest = bool(ex.get('rest')) and bool(spec.get('varargs'))
  P, K = [], {}
  prefix = True
  supplied = []
  needed = []
  bound_here = models.overlay(model.bind, p.selector, scope) if model else None
  for x in names:
    o = over.get(x)
    if phase == 'first':
      # keep the call well-formed: parameters without default that have no applicable binding are supplied by keyword
      need = has_no_default(spec, x) and x not in bound_here
      if o in ('req-kw', 'req-pos') and x not in bound_here:
        o = None   # gin.REQUIRED is only passed where a binding applies (unfilled REQUIRED is C10's subject)
      o = (o or 'kw') if need else o
      if rest and x in pos and o not in ('pos', 'req-pos'):
        o = 'pos'  # extra positional arguments can only follow all the named ones
      over[x] = o
      if need:
        needed.append(x)
    if o in ('req-kw', 'req-pos'):
      # the caller marks the parameter gin.REQUIRED: Gin supplies it, so it belongs in the record
      if phase == 'first':
        ctx.bucket('override:gin.REQUIRED-marker')
      if o == 'req-pos' and prefix and x in pos and pos.index(x) == len(P):
        P.append(gin.REQUIRED)
      else:
        prefix = False
        K[x] = gin.REQUIRED
    elif o == 'pos' and prefix and x in pos and pos.index(x) == len(P):
      P.append(['caller', x])
      supplied.append(x)
    elif o:
      prefix = False
      K[x] = ['caller', x]
      supplied.append(x)
    else:
      prefix = False
  if rest and len(P) == len(pos):
    P += [['caller', '*0'], ['caller', '*1']]
    if phase == 'first':
      ctx.bucket('call:extra-positional-rest')
  nest = None
  if ex.get('nest') is not None:
    nest = prepare(ctx, ex['nest'], plist, model, phase, scope)
  return {'h': h, 'ci': ci, 'p': p, 'P': P, 'K': K, 'supplied': supplied, 'needed': needed, 'scope': scope, 'how': how, 'bound': bound_here,
          'nest': nest, 'raise': ex.get('raise'), 'over': over}


def nodes(prep):
  out = []
  while prep is not None:
    out.append(prep)
    prep = prep['nest']
  return out


def run_history(ctx, case, plist, objs, model, phase, fmt=None):
  """Runs the history; returns list of per-call observations (shapes of what each consumer received, provider runs)."""
  import gin
  obs = []
  ci_of = {p.pid: i for i, p in enumerate(plist)}
  for hi, h in enumerate(case['history']):
    if h[0] == 'remacro':
      if phase == 'first':
        ctx.bucket('history:macro-redefined-after-use' if h[1] in model.macros_used else 'history:macro-redefined')
        h[2] = completed(h[2])
        if h[3]:
          gin.parse_config('%s = %s\n' % (h[1], c04.tree_text(h[2])))
        else:
          gin.bind_parameter((h[1], 'gin.macro', 'value'), tree_value(h[2], objs))
        model.macros[h[1]] = h[2]
      obs.append(('remacro',))
    elif h[0] == 'rebind':
      _, ci, sc, prm, tree = h[:5]
      p = plist[ci]
      old = (model.bind if model else {}).get((sc, p.selector), {}).get(prm)
      if phase == 'first' and len(h) > 5 and h[5] and old is not None:
        # re-bind to a value that is different but compares equal to the old one (==): the record must still show the new one
        eq = equal_but_different(old)
        if eq is not None:
          tree = eq
          h[4] = tree
          ctx.bucket('history:rebind-equal-but-different')
      if phase == 'first':
        # statement X: never a non-representable value after a representable one for the same parameter
        # (a binding added where only the default applied so far replaces a representable default, or nothing)
        if (old is None or tree_repr(old) is not None) and tree_repr(tree) is None:
          tree = ['lit', 'rebound']
          h[4] = tree
        tree = h[4] = completed(tree)   # (what is written after the twin arrived has to name its target unambiguously)
        if old is None and any(k[1] == p.selector and prm in vals for k, vals in model.op.items()):
          ctx.bucket('history:binding-added-after-default-recorded')
        gin.bind_parameter((sc, p.selector, prm), tree_value(tree, objs))
        model.bind.setdefault((sc, p.selector), {})[prm] = tree
        ctx.bucket('history:rebind')
      obs.append(('rebind',))
    elif h[0] == 'register':
      obs.append(run_register(ctx, plist, model, phase, h[1]))
    else:
      obs.append(run_call(ctx, case, plist, model, phase, h, ci_of))
    if phase == 'first' and (case.get('mid') == 'all' or (case.get('mid') == 'one' and case.get('mid_at') == hi)) and hi < len(case['history']) - 1:
      # the text is a function of the history so far: read it now and compare it with the model as it stands
      check_text(ctx, model, gin.operative_config_str(), 'after step %d (%s) of %d' % (hi, h[0], len(case['history'])))
      if case.get('mid') == 'all':
        ctx.bucket('text:read-after-every-step')
      if h[0] == 'rebind' and any(x[0] == 'call' for x in case['history'][:hi]):
        ctx.bucket('text:read-after-rebind-before-next-call')
  return obs


def run_register(ctx, plist, model, phase, info):
  """A configurable named like the case's provider is registered in another module (first phase only: the registry outlives clear_config);
  optionally one named like a consumer; optionally the twin is called (in both phases): it has a section of its own."""
  import gin
  late = _S['late']
  if phase == 'first':
    late['twin'] = twin = probes.build({'shape': info['twin_shape'], 'api': info['twin_api'], 'name': late['name'], 'module': info['twin_module'], 'pos': [],
                                        'dflt': [['t', 'dflt-t']], 'varargs': False, 'kwonly': [], 'varkw': False})
    _S['pids'][twin.pid] = late['name'] + '#twin'
    bound = any(any_ref(t, lambda r: prov(r[1]) is late['p']) for vals in model.bind.values() for t in vals.values())
    bound = bound or any(t is not None and any_ref(t, lambda r: prov(r[1]) is late['p']) for t in list(model.macros.values()) + list(model.case['graph'].values()))
    if bound:
      ctx.bucket('history:same-named-configurable-registered-after-reference-was-bound')
    if info['cons'] is not None:
      p = plist[info['cons']]

      def other(z=0):
        return z
      gin.external_configurable(other, p.cls_name if p.spec['shape'] == 'method' else p.name, module=info['cons_module'])
      ctx.bucket('history:same-named-twin-of-consumer-registered')
  twin = late['twin']
  if info['call'] is None:
    return ('register',)
  mark = probes.RECORDER.mark()
  with gin.config_scope(list(info['call'])):
    probes.call_probe(twin, [], {})
  if model is not None:
    model.record(info['call'], twin.selector, {'t': ['lit', 'dflt-t']})
    ctx.bucket('history:same-named-twin-called')
  return ('register', tuple((_S['pids'].get(r.pid), r.scope, normalise(r.received)) for r in probes.RECORDER.since(mark)))


def run_call(ctx, case, plist, model, phase, h, ci_of):
  import gin
  then_fail = len(h) > 4 and h[4]
  prep = prepare(ctx, h, plist, model, phase, None)
  chain = nodes(prep)
  p, P, K, scope, supplied, needed, bound_here = prep['p'], prep['P'], prep['K'], prep['scope'], prep['supplied'], prep['needed'], prep['bound']
  raises = any(n['raise'] for n in chain)
  if phase == 'first':
    for d, n in enumerate(chain[1:]):
      ctx.bucket('history:nested-call' if d == 0 else 'history:nested-call-depth2')
      if n['ci'] == chain[d]['ci']:
        ctx.bucket('history:nested-call-same-configurable')
      if n['how'] is not None:
        ctx.bucket('history:nested-call-under-added-scope' if n['how'][0] == 'rel' else 'history:nested-call-under-replaced-scope')
      if chain[d]['ci'] == SUB:
        ctx.bucket('history:super-init-of-configurable-base')
      if n['raise']:
        ctx.bucket('history:nested-body-raises')
    for n in chain:
      if n['raise']:
        ctx.bucket('history:body-raises-Exception' if n['raise'] == 'exc' else 'history:body-raises-BaseException')
  mark = probes.RECORDER.mark()
  raised = False
  try:
    with gin.config_scope(list(scope)):
      execute(prep)
  except BaseException as e:  # pylint: disable=broad-except
    # a body was told to raise: whatever reaches the caller is accepted (the property is about the record, not about the exception)
    if not raises or isinstance(e, (KeyboardInterrupt, SystemExit)):
      raise
    raised = True
  recs = probes.RECORDER.since(mark)
  cons = [r for r in recs if r.pid in ci_of]
  provs = sorted((_S['pids'][r.pid], r.scope) for r in recs if r.pid in _S['pids'])
  received = cons[0].received if cons else None
  ob = ('call', tuple((ci_of[r.pid], r.scope, normalise(r.received)) for r in cons), provs, raised)
  if phase == 'first' and received and bound_here:
    # the consumer edits, in place, the containers Gin handed it: the record of what Gin supplied must not change with them
    nm = 0
    for x in bound_here:
      # (a constant is delivered as the very object: editing it edits the constant, which is the user's business)
      if x not in supplied and not has(bound_here[x], ('const',)) and not (has(bound_here[x], ('macro',)) and any(has(mt, ('const',)) for mt in case['macros'].values())):
        got = received.get(x) if x in received else (received.get('**') or {}).get(x)
        nm += c04.mutate(got)
    if nm:
      ctx.bucket('history:consumer-mutated-supplied-container')
  if then_fail and needed and phase == 'first' and needed[0] in K and len(chain) == 1 and not raises:
    # the same call again, but one parameter nobody provides is left out: TypeError; what the earlier calls recorded must survive
    K2 = {k: v for k, v in K.items() if k != needed[0]}
    try:
      with gin.config_scope(list(scope)):
        probes.call_probe(p, list(P), K2)
      ctx.check(False, 'call-with-missing-argument-succeeded', 'call without %r succeeded' % needed[0])
    except TypeError:
      ctx.bucket('history:failed-call-after-successful-call')
    except Exception:  # pylint: disable=broad-except
      if not sig_required(p.spec, needed[0]):   # (a missing gin.REQUIRED parameter: the exception class is C10's subject)
        raise
      ctx.bucket('history:failed-call-after-successful-call')
    if model is not None:
      # providers of Gin-supplied references run before the failure is detected
      gs2 = models.overlay(model.bind, p.selector, scope)
      for n_, t_ in gs2.items():
        if n_ not in supplied:
          model.evaluate(t_, scope)
  if model is not None:
    before = len(model.prov_calls)
    for n in chain:
      model.call_consumer(n['ci'], n['scope'], n['supplied'])
      model.calls_log.append((n['ci'], list(n['scope']), dict(n['over'])))
    want = [(ci_of[n['p'].pid], tuple(n['scope'])) for n in chain]
    ctx.check([(c, s) for c, s, _ in ob[1]] == want, 'bodies-that-ran-differ-from-plan',
              'call %r: bodies ran %r, planned %r' % (h, [(c, s) for c, s, _ in ob[1]], want))
    ctx.check(sorted(model.prov_calls[before:]) == provs, 'provider-runs-differ-from-model',
              'call of consumer %d under %r (caller supplied %r, nested %d): providers ran %r, model %r'
              % (prep['ci'], scope, supplied, len(chain) - 1, provs, sorted(model.prov_calls[before:])))
    if any(o == 'kw' and x in (bound_here or {}) and has(bound_here[x], ('ref', 'macro')) for x, o in prep['over'].items() if o):
      ctx.bucket('override:keyword-on-reference')
  return ob


def equal_but_different(t):
  if t[0] == 'ref':
    return ['ref', t[1], ['s2'] if t[2] != ['s2'] else ['s1'], t[3]]   # references compare equal regardless of their scope
  if t[0] == 'macro':
    return ['macro', 'mm/m1' if t[1] == 'm0' else 'm0']                # so do all macros
  if t[0] == 'lit':
    v = t[1]
    if v is True:
      return ['lit', 1]
    if type(v) is int and v in (0, 1):
      return ['lit', bool(v)]
    if type(v) is int:
      return ['lit', float(v)]
    if type(v) is float and v == int(v) and abs(v) < 1e15:
      return ['lit', int(v)]
    if type(v) is list and v and all(type(x) is int for x in v):
      return ['lit', [float(x) for x in v]]
  return None


def normalise(v):
  """Shape of a received value modulo provider result counters."""
  if isinstance(v, list) and len(v) == 3 and v[0] == 'ret' and v[1] in _S['pids']:
    return ('prov', _S['pids'][v[1]])
  if callable(v):
    return ('callable', getattr(v, '__name__', '?'))
  if type(v) in (list, tuple):
    return (type(v).__name__, tuple(normalise(x) for x in v))
  if type(v) is dict:
    # (equal dicts are the same argument: the order of the names taken by **kwargs, or of a dict's items, is not compared)
    return ('dict', tuple(sorted(((normalise(a), normalise(b)) for a, b in v.items()), key=repr)))
  return canon(v)


def run_case(ctx, case):
  import gin
  from gin import config as gc
  gin.clear_config()
  _S['plan'].clear()
  _S['pids'] = dict(_S['by_pid'])
  _S['late'] = None
  if any(h[0] == 'register' for h in case['history']):
    info = [h[1] for h in case['history'] if h[0] == 'register'][0]
    lp = probes.build({'shape': 'fn', 'api': info['api'], 'name': None, 'module': LATE_MODULE, 'pos': [], 'dflt': [['t', 'dflt-t']], 'varargs': False,
                       'kwonly': [], 'varkw': False})
    case = relabel(case, LATE, lp.name)      # (a copy: the names in it are those registered for this run of the case)
    _S['late'] = {'name': lp.name, 'p': lp, 'twin': None}
    _S['pids'][lp.pid] = lp.name
  plist = [build_hooked(s) for s in case['specs']] + list(_S['fixed'])
  for p in plist[:2]:
    ctx.bucket('shape:' + p.spec['shape'])
  objs = {}
  model = OpModel(case, plist)
  lines = []
  for name, g in case['graph'].items():
    if g is not None:
      lines.append('%s.t = %s' % (name, c04.tree_text(g)))
  for m, t in case['macros'].items():
    lines.append('%s = %s' % (m, c04.tree_text(t)))
  lines.append('c7never.z = 5')
  ctx.bucket('never-called-configurable-bound')
  gin.parse_config('\n'.join(lines) + '\n')
  for ci, sc, prm, tree in case['binds']:
    p = plist[ci]
    if has(tree, ('obj',)) or ctx.case_no % 2:
      gin.bind_parameter((sc, p.selector, prm), tree_value(tree, objs))
    else:
      gin.parse_config('%s%s.%s = %s\n' % (sc + '/' if sc else '', p.key_selector, prm,
                                            c04.tree_text(tree) if not has(tree, ('const',)) else const_text(tree)))
    model.bind.setdefault((sc, p.selector), {})[prm] = tree
    if has(tree, ('ref',)) and any_ref(tree, lambda t: len(t[2]) > 1):
      ctx.bucket('ref:scope-of-several-components')

  obs1 = run_history(ctx, case, plist, objs, model, 'first')
  text = gin.operative_config_str()
  res = check_text(ctx, model, text, 'after the whole history')
  if res is None:
    return
  fmt = case.get('fmt')
  if fmt:
    # the same record printed with other format parameters: the same sections, parameters and values
    textf = gin.operative_config_str(max_line_length=fmt[0], continuation_indent=fmt[1])
    ctx.bucket('text:format-variant')
    if re.search(r'= \\$', textf, re.M):
      ctx.bucket('text:format-variant-multiline-value')
    if check_text(ctx, model, textf, 'after the whole history, max_line_length=%d continuation_indent=%d' % tuple(fmt)) is None:
      return
  exp_bind, all_repr = res['exp_bind'], res['all_repr']
  # buckets about what was (not) shown
  for ci, scope, over in model.calls_log:
    p = plist[ci]
    sc = '/'.join(scope)
    for x, o in over.items():
      if o in ('kw', 'pos'):
        if (sc, p.selector, x) in exp_bind:
          ctx.bucket('param:caller-supplied-once-gin-once')
        else:
          ctx.bucket('param:caller-supplied-omitted')
          if x in p.spec.get('extra', ()):
            ctx.bucket('param:varkw-name-caller-supplied-omitted')
    for x in p.spec.get('extra', ()):
      if (sc, p.selector, x) in exp_bind:
        ctx.bucket('param:varkw-name-shown')
    dv = probes.default_values(p.spec)
    for x, v in dv.items():
      if isinstance(v, dict) and '__obj__' in v:
        ctx.bucket('param:nonrepresentable-default-omitted')
      elif isinstance(v, dict) and '__required__' in v:
        if (sc, p.selector, x) in exp_bind:
          ctx.bucket('param:signature-required-filled-from-binding')
      elif not is_configurable(p.spec, x):
        ctx.bucket('param:denylisted-default-omitted')
      elif (sc, p.selector, x) in exp_bind and exp_bind[(sc, p.selector, x)] == v:
        ctx.bucket('param:default-shown')
  if any(k[2] and k[1] in (plist[0].selector, plist[1].selector) for k in exp_bind):
    ctx.bucket('param:binding-shown')
  late = _S['late']
  if late and late['twin'] is not None:
    def ambiguous(r):
      return prov(r[1]) is late['p'] and len(gc._REGISTRY.matching_selectors(r[1])) > 1
    if any(tree_repr(t) is not None and any_ref(t, ambiguous) for vals in model.op.values() for t in vals.values()):
      ctx.bucket('ref:recorded-reference-written-with-now-ambiguous-selector')
    if any(tree_repr(t) is not None and any_ref(t, ambiguous) for t in model.macros_used.values()):
      ctx.bucket('section:macro-holding-reference-written-with-now-ambiguous-selector')
  ncalls = sum(1 for h in case['history'] if h[0] == 'call')
  if ncalls >= 5:
    ctx.bucket('history:5+calls')
  feats = set()
  for b in case['binds']:
    feats |= c04.tree_feats(b[3]) if b[3][0] not in ('obj', 'const') else {b[3][0]}
  ctx.fp(tuple((s['shape'], len(s['pos']), len(s['dflt']), len(s['kwonly']), bool(s.get('allow')), bool(s.get('deny')), bool(s.get('varargs')), bool(s.get('varkw')))
               for s in case['specs']),
         tuple(sorted(feats)), tuple(sorted({tuple(h[2]) for h in case['history'] if h[0] == 'call'})), ncalls,
         tuple((ci, tuple(scope), tuple(sorted((x, o) for x, o in over.items() if o))) for ci, scope, over in model.calls_log))
  ctx.sample({'specs': case['specs'], 'history': case['history'], 'operative_text': text[:700]}, cap=2)

  # ---- a failed call (macro without a value) must not break the operative config string
  if ctx.case_no % 4 == 0:
    ctx.bucket('history:failed-call-on-unbound-macro')
    with gin.unlock_config():
      gin.parse_config('c7never.z = %c7_macro_without_value')
    try:
      _S['never'].conf()
      ctx.check(False, 'unbound-macro-use-succeeded', 'a call using a macro without value succeeded')
    except Exception:  # pylint: disable=broad-except
      pass
    try:
      t3 = gin.operative_config_str()
      snap.parse_text(undot(t3, ['c.d']) if res['dotted'] else t3)
      ctx.count('oracle_evals')
    except Exception as e:  # pylint: disable=broad-except
      ctx.check(False, 'operative-config-str-raises', 'after a failed call on an unbound macro operative_config_str() raised/does not parse: %r' % (e,))
    return

  # ---- replay
  rebinds = any(h[0] in ('rebind', 'remacro') for h in case['history'])
  if all_repr and not rebinds and not res['dotted']:
    kw = {'max_line_length': fmt[0], 'continuation_indent': fmt[1]} if fmt else {}
    if fmt:
      text = textf       # the text printed with other format parameters replays as well, and is reproduced under the same parameters
      ctx.bucket('replay:of-format-variant')
    gin.clear_config()
    try:
      gin.parse_config(text)
    except Exception as e:  # pylint: disable=broad-except
      ctx.check(False, 'operative-config-does-not-reparse', 'parse_config(operative_config_str(%r)) failed: %r\n%s' % (kw, e, text[:800]))
      return
    obs2 = run_history(ctx, case, plist, objs, None, 'replay')
    ctx.count('replays')
    ctx.bucket('replay:done')
    if late and late['twin'] is not None:
      ctx.bucket('replay:after-late-registration')
    for a, b in zip(obs1, obs2):
      ctx.check(a == b, 'replay-differs', 'replaying the operative config: first run %r, replay %r' % (a, b), {'text': text[:1500]})
    text2 = gin.operative_config_str(**kw)
    ctx.check(text2 == text, 'replay-text-differs', 'operative text after replay differs:\n%s\n---\n%s' % (text[:700], text2[:700]))


def any_ref(t, pred):
  if t[0] == 'ref':
    return pred(t)
  if t[0] in ('list', 'tuple'):
    return any(any_ref(x, pred) for x in t[1])
  if t[0] == 'dict':
    return any(any_ref(a, pred) or any_ref(b, pred) for a, b in t[1])
  return False



def const_text(t):
  k = t[0]
  if k == 'const':
    return '%' + t[1]
  if k in ('list', 'tuple'):
    inner = ', '.join(const_text(x) for x in t[1])
    return '[' + inner + ']' if k == 'list' else '(' + inner + (',)' if len(t[1]) == 1 else ')')
  if k == 'dict':
    return '{' + ', '.join('%s: %s' % (const_text(a), const_text(b)) for a, b in t[1]) + '}'
  return c04.tree_text(t)


LEVEL_TEXT = ('Runtime monitor with an operative-record reference model: after generated call histories the real operative_config_str() is re-parsed '
              'with gin\'s own parser and compared exactly (sections = called (scope, configurable) pairs, parameters = Gin-supplied representable '
              'values incl. filtered defaults, macro section, no constants), and, when every supplied value is representable, the text is replayed on a '
              'cleared configuration and every call must receive equal arguments, run the same providers and reproduce the text. The model is '
              'compared with the text after every step of the history in part of the cases (not only at the end), under several format parameters, '
              'and line by line (each binding line under the header of its own section); histories include nested calls from probe bodies, '
              'super().__init__ of a configurable base, bodies that raise, **kwargs names and extra positional arguments.')
LEVEL_NOTE = ('Trusted: the operative model (~60 lines) and own representability classifier. A non-representable value following a representable one '
              'for the same parameter is excluded (DESIGN X).')
TECHNIQUE = 'runtime reference-model monitor + metamorphic replay (first run vs replay of the operative config)'
DESIGN_REF = 'DESIGN.md section 4, C07'
