"""C07 — the operative config records exactly what Gin supplied and suffices to replay."""
import math
import re

from vf import models, probes, snap
from vf.checks import c04
from vf.teq import canon, teq

ID = 'C07'
LEVEL = 'exploration'
RULE = ('two consumer probes (random signature incl. defaults, kw-only, allow/deny lists, non-representable defaults; fn/init/method) with scoped '
        'bindings to value trees (literals, @prov(), @s/prov(), @prov, %macro, %CONSTANT, programmatic non-representable objects), provider graphs, '
        'call histories of 1-8 calls under random scopes with per-parameter caller override, optional rebinding between calls; oracle = '
        'operative-record model; operative_config_str() is re-parsed by the real ConfigParser (recording delegate) + section headers and must equal '
        'the model\'s representable subset exactly (sections, parameters, values, macro section, no constant section); when everything supplied is '
        'representable: clear, parse that text, repeat the calls -> same arguments, same provider runs, same text. '
        'distinct = (signature features, tree features, scopes used, override pattern, history length)')
TIERS = {
    'quick': {'workers': 8, 'cases': 1350, 'timeout': 600},
    'thorough': {'workers': 16, 'cases': 14000, 'timeout': 3000},
}
# further workloads for the property's online monitor (vf/online.py): the repository's tests and other checks' generated cases
ONLINE = {'which': ['rtop'], 'foreign': ['C01', 'C04', 'C05', 'C10', 'C11', 'C12', 'C17', 'C20'], 'n': {'quick': 30, 'thorough': 400}}
REQUIRED_BUCKETS = ['section:none-marker', 'section:scoped', 'section:provider', 'section:macro', 'section:constant-omitted', 'param:default-shown',
                    'param:binding-shown', 'param:caller-supplied-omitted', 'param:caller-supplied-once-gin-once', 'param:denylisted-default-omitted',
                    'param:nonrepresentable-omitted', 'param:nonrepresentable-default-omitted', 'replay:done', 'history:rebind', 'history:5+calls',
                    'shape:method', 'shape:init', 'shape:fn', 'override:keyword-on-reference', 'never-called-configurable-bound', 'history:failed-call-on-unbound-macro', 'history:rebind-equal-but-different', 'override:gin.REQUIRED-marker', 'history:failed-call-after-successful-call']
REQUIRED_BUCKETS = REQUIRED_BUCKETS + ['history:consumer-mutated-supplied-container', 'history:macro-redefined-after-use']
ORACLE_COUNTERS = ['oracle_evals', 'texts_compared', 'replays']
_S = {}
HDR = re.compile(r'^# Parameters for (.+):$')


def setup(ctx):
  import gin
  c04.setup(ctx)
  _S['provs'] = c04._S['provs']
  _S['by_pid'] = c04._S['by_pid']
  gin.constant('c7.mod.CONST_A', ['const-object'])
  gin.constant('c7.other.CONST_B', probes.Opaque('constB'))
  _S['never'] = probes.build({'shape': 'fn', 'api': 'external', 'name': 'c7never', 'module': 'c7', 'pos': [], 'dflt': [['z', 1]], 'varargs': False,
                              'kwonly': [], 'varkw': False})


def representable(v):
  t = type(v)
  if t in (int, str, bytes, bool, type(None)):
    return True
  if t is float:
    return math.isfinite(v)
  if t in (list, tuple):
    return all(representable(x) for x in v)
  if t is dict:
    return all(representable(k) and representable(x) for k, x in v.items())
  return False


def tree_repr(t):
  """None if the tree has no literal form, else the value as the recording delegate would read it back."""
  k = t[0]
  if k == 'lit':
    return ('ok', t[1]) if representable(t[1]) else None
  if k == 'obj':
    return None
  if k == 'ref':
    return ('ok', ('@ref', '/'.join(t[2] + [t[1]]), bool(t[3])))
  if k == 'macro':
    return ('ok', ('%macro', t[1]))
  if k == 'const':  # a constant reference is printed under the constant's complete name
    return ('ok', ('%macro', {'CONST_A': 'c7.mod.CONST_A', 'mod.CONST_A': 'c7.mod.CONST_A', 'CONST_B': 'c7.other.CONST_B'}[t[1]]))
  if k in ('list', 'tuple'):
    items = [tree_repr(x) for x in t[1]]
    if any(i is None for i in items):
      return None
    return ('ok', [i[1] for i in items] if k == 'list' else tuple(i[1] for i in items))
  items = [(tree_repr(a), tree_repr(b)) for a, b in t[1]]
  if any(a is None or b is None for a, b in items):
    return None
  return ('ok', {a[1]: b[1] for a, b in items})


def tree_value(t, objs):
  """Materialise a tree into the Python value to bind programmatically (references via gin's parser)."""
  from gin import config as gc
  k = t[0]
  if k == 'lit':
    return t[1]
  if k == 'obj':
    return objs.setdefault(t[1], {'opaque': probes.Opaque('o'), 'set': {1, 2}, 'nan': float('nan'), 'inf': float('inf'), 'lambda': (lambda: 0)}[t[1]])
  if k in ('ref', 'macro', 'const'):
    return gc.parse_value(c04.tree_text(t) if k != 'const' else '%' + t[1])
  if k == 'list':
    return [tree_value(x, objs) for x in t[1]]
  if k == 'tuple':
    return tuple(tree_value(x, objs) for x in t[1])
  return {tree_value(a, objs): tree_value(b, objs) for a, b in t[1]}


def gen_tree(rng, depth):
  r = rng.random()
  if depth <= 0 or r < 0.55:
    k = rng.random()
    if k < 0.4:
      return ['lit', rng.choice([1, 'x', None, 2.5, -0.0, True, [1, 2], {'a': [0]}, (3,), '', 'a"b\'c', b'by', 1e300, {1: {2: (3, 'four')}}, 'long ' * 30])]
    if k < 0.75:
      scopes = [rng.choice(['s1', 's2'])] if rng.random() < 0.35 else []
      return ['ref', 'prov%d' % rng.randrange(3), scopes, rng.random() < 0.7]
    if k < 0.86:
      return ['macro', rng.choice(['m0', 'mm/m1'])]
    if k < 0.92:
      return ['const', rng.choice(['CONST_A', 'mod.CONST_A', 'CONST_B'])]
    return ['obj', rng.choice(['opaque', 'set', 'nan', 'inf', 'lambda'])]
  n = rng.choice([1, 2, 3])
  if r < 0.8:
    return ['list', [gen_tree(rng, depth - 1) for _ in range(n)]]
  if r < 0.9:
    return ['tuple', [gen_tree(rng, depth - 1) for _ in range(n)]]
  return ['dict', [[['lit', 'k%d' % i], gen_tree(rng, depth - 1)] for i in range(n)]]


def has(t, kinds):
  if t[0] in kinds:
    return True
  if t[0] in ('list', 'tuple'):
    return any(has(x, kinds) for x in t[1])
  if t[0] == 'dict':
    return any(has(a, kinds) or has(b, kinds) for a, b in t[1])
  return False


def gen_consumer(rng, shape):
  spec = probes.gen_spec(rng, shapes=[shape], lists=True, max_pos=2)
  spec['varargs'] = False
  spec['varkw'] = False
  for d in spec['dflt']:
    d[1] = rng.choice(['dflt-' + d[0], 3, [1, 2], {'__obj__': 'od'}, None, (1, 'x')])
  for k in spec['kwonly']:
    if k[1]:
      k[2] = rng.choice(['dflt-' + k[0], 0.5, {'__obj__': 'ok'}])
  return spec


def iter_cases(ctx, rng, n):
  for i in range(n):
    specs = [gen_consumer(rng, ['fn', 'init', 'method'][i % 3]), gen_consumer(rng, rng.choice(['fn', 'init']))]
    binds = []
    for ci, spec in enumerate(specs):
      names = probes.all_named(spec)
      allow, deny = spec.get('allow'), spec.get('deny')
      for x in names:
        if (allow and x not in allow) or (deny and x in deny):
          continue
        for sc in rng.sample(['', 'a', 'a/b', 'b'], rng.choice([0, 1, 1, 2])):
          binds.append([ci, sc, x, gen_tree(rng, rng.choice([0, 1, 2]))])
    graph = {'prov1': rng.choice([None, ['ref', 'prov0', [], True], ['ref', 'prov0', ['g1'], True]]),
             'prov2': rng.choice([None, None, ['ref', 'prov1', [], True], ['list', [['ref', 'prov0', [], True], ['lit', 5]]]])}
    macros = {'m0': rng.choice([['ref', 'prov0', [], True], ['lit', [1, [2]]], ['lit', 'mv']]),
              'mm/m1': rng.choice([['ref', 'prov2', [], True], ['list', [['ref', 'prov0', [], True]]], ['lit', 7]])}
    history = []
    for _ in range(rng.choice([1, 2, 3, 4, 5, 6, 8])):
      if rng.random() < 0.12 and binds:
        b = rng.choice(binds)
        history.append(['rebind', b[0], b[1], b[2], gen_tree(rng, 1), rng.random() < 0.5])
        continue
      ci = rng.randrange(2)
      over = {}
      for x in probes.all_named(specs[ci]):
        if rng.random() < 0.3:
          over[x] = rng.choice(['kw', 'kw', 'pos', 'req-kw', 'req-pos'])
      history.append(['call', ci, rng.choice([[], [], ['a'], ['a', 'b'], ['b'], ['c'], ['a', 'c'], ['a', 'b', 'c'], ['a', 'b', 'a', 'b']]), over,
                      rng.random() < 0.15])
    if rng.random() < 0.25:
      # a macro is given another value between calls, often after the last one: the record keeps what the calls were given
      at = len(history) if rng.random() < 0.6 else rng.randrange(len(history) + 1)
      history.insert(at, ['remacro', rng.choice(['m0', 'mm/m1']), rng.choice([['lit', 'redefined'], ['lit', [9, [8]]], ['ref', 'prov0', [], True]]), rng.random() < 0.5])
    yield {'specs': specs, 'binds': binds, 'graph': graph, 'macros': macros, 'history': history}


class OpModel:
  """Operative-record model."""

  def __init__(self, case, plist):
    self.case, self.plist = case, plist
    self.op = {}         # (scope_str, selector) -> {param: tree | ['lit', default]}
    self.macros_used = {}
    self.consts_used = set()
    self.bind = {}       # (scope, selector) -> {param: tree}
    self.prov_calls = []
    self.macros = dict(case['macros'])    # current definitions (a history may re-define them)

  def record(self, scope, selector, vals):
    self.op.setdefault(('/'.join(scope), selector), {}).update(vals)

  def evaluate(self, t, ambient):
    k = t[0]
    if k == 'ref' and t[3]:
      self.call_provider(t[1], t[2] or ambient)
    elif k == 'macro':
      self.macros_used[t[1]] = self.macros[t[1]]
      self.evaluate(self.macros[t[1]], t[1].split('/'))
    elif k == 'const':
      self.consts_used.add(t[1])
    elif k in ('list', 'tuple'):
      for x in t[1]:
        self.evaluate(x, ambient)
    elif k == 'dict':
      for a, b in t[1]:
        self.evaluate(a, ambient)
        self.evaluate(b, ambient)

  def call_provider(self, name, scope):
    self.prov_calls.append((name, tuple(scope)))
    sel = _S['provs'][name].selector
    vals = {'t': ['lit', 'dflt-t']}
    g = self.case['graph'].get(name)
    if g is not None:
      vals['t'] = g
    self.record(scope, sel, vals)
    if g is not None:
      self.evaluate(g, list(scope))

  def call_consumer(self, ci, scope, supplied):
    p = self.plist[ci]
    spec = p.spec
    allow, deny = spec.get('allow'), spec.get('deny')
    vals = {}
    for n, v in probes.default_values(spec).items():
      if (allow and n not in allow) or (deny and n in deny):
        continue
      if isinstance(v, dict) and '__obj__' in v:
        continue  # no literal form
      vals[n] = ['lit', v]
    applicable = models.overlay(self.bind, p.selector, scope)
    vals.update(applicable)
    for n in supplied:
      vals.pop(n, None)
    if spec['shape'] == 'method':
      # constructing the instance is itself a configurable call (class K with default c=0)
      self.record(scope, p.cls_selector, {'c': ['lit', 0]})
    self.record(scope, p.selector, vals)
    gin_supplied = {n: t for n, t in applicable.items() if n not in supplied}
    for n, t in gin_supplied.items():
      self.evaluate(t, scope)
    return gin_supplied


def parse_operative(text):
  """sections (ordered header list), bindings {(scope, selector, arg): value} via the real parser."""
  headers = [HDR.match(l).group(1) for l in text.splitlines() if HDR.match(l)]
  bindings, imports, includes, order = snap.parse_text(text)
  return headers, bindings, order


def run_history(ctx, case, plist, objs, model, phase):
  """Runs the history; returns list of per-call observations (shapes of what each consumer received, provider runs)."""
  import gin
  obs = []
  for h in case['history']:
    if h[0] == 'remacro':
      if phase == 'first':
        ctx.bucket('history:macro-redefined-after-use' if h[1] in model.macros_used else 'history:macro-redefined')
        if h[3]:
          gin.parse_config('%s = %s\n' % (h[1], c04.tree_text(h[2])))
        else:
          gin.bind_parameter((h[1], 'gin.macro', 'value'), tree_value(h[2], objs))
        model.macros[h[1]] = h[2]
      obs.append(('remacro',))
      continue
    if h[0] == 'rebind':
      _, ci, sc, prm, tree = h[:5]
      p = plist[ci]
      old = (model.bind if model else {}).get((sc, p.selector), {}).get(prm)
      if phase == 'first' and len(h) > 5 and h[5] and old is not None:
        # re-bind to a value that is different but compares equal to the old one (==): the record must still show the new one
        eq = equal_but_different(old)
        if eq is not None:
          tree = eq
          h[4] = tree
          ctx.bucket('history:rebind-equal-but-different')
      if phase == 'first':
        # statement X: never a non-representable value after a representable one for the same parameter
        if old is not None and tree_repr(old) is not None and tree_repr(tree) is None:
          tree = ['lit', 'rebound']
          h[4] = tree
        gin.bind_parameter((sc, p.selector, prm), tree_value(tree, objs))
        model.bind.setdefault((sc, p.selector), {})[prm] = tree
        ctx.bucket('history:rebind')
      obs.append(('rebind',))
      continue
    _, ci, scope, over = h[:4]
    then_fail = len(h) > 4 and h[4]
    p = plist[ci]
    spec = p.spec
    pos = probes.positional_names(spec)
    names = probes.all_named(spec)
    P, K = [], {}
    prefix = True
    supplied = []
    needed = []
    bound_here = models.overlay(model.bind, p.selector, scope) if model else None
    for x in names:
      o = over.get(x)
      need = False
      if phase == 'first':
        # keep the call well-formed: parameters without default that have no applicable binding are supplied by keyword
        no_default = x in spec['pos'] or any(k[0] == x and not k[1] for k in spec['kwonly'])
        need = no_default and x not in bound_here
        if o in ('req-kw', 'req-pos') and x not in bound_here:
          o = None   # gin.REQUIRED is only passed where a binding applies (unfilled REQUIRED is C10's subject)
        h[3][x] = o = (o or 'kw') if need else o
        if need:
          needed.append(x)
      if o in ('req-kw', 'req-pos'):
        # the caller marks the parameter gin.REQUIRED: Gin supplies it, so it belongs in the record
        if phase == 'first':
          ctx.bucket('override:gin.REQUIRED-marker')
        if o == 'req-pos' and prefix and x in pos and pos.index(x) == len(P):
          P.append(gin.REQUIRED)
        else:
          prefix = False
          K[x] = gin.REQUIRED
      elif o == 'pos' and prefix and x in pos and pos.index(x) == len(P):
        P.append(['caller', x])
        supplied.append(x)
      elif o:
        prefix = False
        K[x] = ['caller', x]
        supplied.append(x)
      else:
        prefix = False
    mark = probes.RECORDER.mark()
    with gin.config_scope(list(scope)):
      probes.call_probe(p, P, K)
    recs = probes.RECORDER.since(mark)
    cons = [r for r in recs if r.pid == p.pid]
    provs = sorted((_S['by_pid'][r.pid], r.scope) for r in recs if r.pid in _S['by_pid'])
    received = cons[0].received if cons else None
    obs.append(('call', ci, tuple(scope), normalise(received), provs))
    if phase == 'first' and received and bound_here:
      # the consumer edits, in place, the containers Gin handed it: the record of what Gin supplied must not change with them
      nm = 0
      for x in bound_here:
        # (a constant is delivered as the very object: editing it edits the constant, which is the user's business)
        if x not in supplied and not has(bound_here[x], ('const',)) and not (has(bound_here[x], ('macro',)) and any(has(mt, ('const',)) for mt in case['macros'].values())):
          got = received.get(x) if x in received else (received.get('**') or {}).get(x)
          nm += c04.mutate(got)
      if nm:
        ctx.bucket('history:consumer-mutated-supplied-container')
    if then_fail and needed and phase == 'first' and needed[0] in K:
      # the same call again, but one parameter nobody provides is left out: TypeError; what the earlier calls recorded must survive
      K2 = {k: v for k, v in K.items() if k != needed[0]}
      try:
        with gin.config_scope(list(scope)):
          probes.call_probe(p, list(P), K2)
        ctx.check(False, 'call-with-missing-argument-succeeded', 'call without %r succeeded' % needed[0])
      except TypeError:
        ctx.bucket('history:failed-call-after-successful-call')
      if model is not None:
        # providers of Gin-supplied references run before the failure is detected
        gs2 = models.overlay(model.bind, p.selector, scope)
        for n_, t_ in gs2.items():
          if n_ not in supplied:
            model.evaluate(t_, scope)
    if model is not None:
      before = len(model.prov_calls)
      gs = model.call_consumer(ci, scope, supplied)
      ctx.check(sorted(model.prov_calls[before:]) == provs, 'provider-runs-differ-from-model',
                'call of consumer %d under %r (caller supplied %r): providers ran %r, model %r' % (ci, scope, supplied, provs, sorted(model.prov_calls[before:])))
      if any(o == 'kw' and x in (bound_here or {}) and has(bound_here[x], ('ref', 'macro')) for x, o in over.items() if o):
        ctx.bucket('override:keyword-on-reference')
  return obs


def equal_but_different(t):
  if t[0] == 'ref':
    return ['ref', t[1], ['s2'] if t[2] != ['s2'] else ['s1'], t[3]]   # references compare equal regardless of their scope
  if t[0] == 'macro':
    return ['macro', 'mm/m1' if t[1] == 'm0' else 'm0']                # so do all macros
  if t[0] == 'lit':
    v = t[1]
    if v is True:
      return ['lit', 1]
    if type(v) is int and v in (0, 1):
      return ['lit', bool(v)]
    if type(v) is int:
      return ['lit', float(v)]
    if type(v) is float and v == int(v) and abs(v) < 1e15:
      return ['lit', int(v)]
    if type(v) is list and v and all(type(x) is int for x in v):
      return ['lit', [float(x) for x in v]]
  return None


def normalise(v):
  """Shape of a received value modulo provider result counters."""
  if isinstance(v, list) and len(v) == 3 and v[0] == 'ret' and v[1] in _S['by_pid']:
    return ('prov', _S['by_pid'][v[1]])
  if callable(v):
    return ('callable', getattr(v, '__name__', '?'))
  if type(v) in (list, tuple):
    return (type(v).__name__, tuple(normalise(x) for x in v))
  if type(v) is dict:
    return ('dict', tuple((normalise(a), normalise(b)) for a, b in v.items()))
  return canon(v)


def run_case(ctx, case):
  import gin
  from gin import config as gc
  gin.clear_config()
  plist = [probes.build(s) for s in case['specs']]
  for p in plist:
    ctx.bucket('shape:' + p.spec['shape'])
  objs = {}
  model = OpModel(case, plist)
  lines = []
  for name, g in case['graph'].items():
    if g is not None:
      lines.append('%s.t = %s' % (name, c04.tree_text(g)))
  for m, t in case['macros'].items():
    lines.append('%s = %s' % (m, c04.tree_text(t)))
  lines.append('c7never.z = 5')
  ctx.bucket('never-called-configurable-bound')
  gin.parse_config('\n'.join(lines) + '\n')
  for ci, sc, prm, tree in case['binds']:
    p = plist[ci]
    if has(tree, ('obj',)) or ctx.case_no % 2:
      gin.bind_parameter((sc, p.selector, prm), tree_value(tree, objs))
    else:
      gin.parse_config('%s%s.%s = %s\n' % (sc + '/' if sc else '', p.key_selector, prm,
                                            c04.tree_text(tree) if not has(tree, ('const',)) else const_text(tree)))
    model.bind.setdefault((sc, p.selector), {})[prm] = tree

  obs1 = run_history(ctx, case, plist, objs, model, 'first')
  text = gin.operative_config_str()
  ctx.count('texts_compared')
  try:
    headers, got, order = parse_operative(text)
  except Exception as e:  # pylint: disable=broad-except
    ctx.check(False, 'operative-config-does-not-parse', 'operative_config_str() does not parse: %r\n%s' % (e, text[:800]))
    return
  # ---- expected sections
  exp_sections = set()
  exp_bind = {}
  all_repr = True
  for (sc, sel), vals in model.op.items():
    exp_sections.add((sc, sel))
    shown = 0
    for prm, tree in vals.items():
      r = tree_repr(tree)
      if r is None:
        all_repr = False
        ctx.bucket('param:nonrepresentable-omitted')
        continue
      shown += 1
      exp_bind[(sc, sel, prm)] = r[1]
    if not shown:
      ctx.bucket('section:none-marker')
    if sc:
      ctx.bucket('section:scoped')
    if sel.startswith('c4.prov'):
      ctx.bucket('section:provider')
  for m, tree in model.macros_used.items():
    ctx.bucket('section:macro')
    r = tree_repr(tree)
    if r is None:
      all_repr = False
    else:
      exp_bind[('MACRO', m, '')] = r[1]
  if model.consts_used:
    ctx.bucket('section:constant-omitted')
  # ---- observed sections, resolved to complete names
  got_sections = set()
  for h in headers:
    sc, _, sel = h.rpartition('/')
    try:
      ent = gc._REGISTRY.get_match(sel)
    except KeyError:
      ent = None
    if not ctx.check(ent is not None, 'section-header-does-not-resolve', 'section header %r does not resolve to one configurable' % h):
      return
    got_sections.add((sc, ent.selector))
  ctx.check(got_sections == exp_sections, 'operative-sections-differ',
            'sections printed %r, model (called pairs) %r\n%s' % (sorted(got_sections - exp_sections), sorted(exp_sections - got_sections), text[:600]))
  got_bind = {}
  for (sc, sel, arg), v in got.items():
    if not arg:
      got_bind[('MACRO', (sc + '/' if sc else '') + sel, '')] = v
      continue
    try:
      ent = gc._REGISTRY.get_match(sel)
    except KeyError:
      ent = None
    if ent is None:
      ctx.check(False, 'binding-line-does-not-resolve', 'binding %s/%s.%s does not resolve' % (sc, sel, arg))
      return
    got_bind[(sc, ent.selector, arg)] = v
  ga = {k: canon(v) for k, v in got_bind.items()}
  ea = {k: canon(v) for k, v in exp_bind.items()}
  if ga != ea:
    d = snap.diff(ga, ea)
    key = 'operative-parameters-differ'
    ctx.check(False, key, 'operative text vs model (printed, expected): %r' % ({k: d[k] for k in list(d)[:6]},), {'text': text[:1500]})
  else:
    ctx.count('oracle_evals')
  # buckets about what was (not) shown
  for hi, h in enumerate(case['history']):
    if h[0] != 'call':
      continue
    p = plist[h[1]]
    for x, o in h[3].items():
      if o:
        if (('/'.join(h[2]), p.selector, x) in exp_bind):
          ctx.bucket('param:caller-supplied-once-gin-once')
        else:
          ctx.bucket('param:caller-supplied-omitted')
    dv = probes.default_values(p.spec)
    for x, v in dv.items():
      if isinstance(v, dict) and '__obj__' in v:
        ctx.bucket('param:nonrepresentable-default-omitted')
      elif (p.spec.get('deny') and x in p.spec['deny']) or (p.spec.get('allow') and x not in p.spec['allow']):
        ctx.bucket('param:denylisted-default-omitted')
      elif ('/'.join(h[2]), p.selector, x) in exp_bind and exp_bind[('/'.join(h[2]), p.selector, x)] == v:
        ctx.bucket('param:default-shown')
  if any(k[2] and k[1] in (plist[0].selector, plist[1].selector) for k in exp_bind):
    ctx.bucket('param:binding-shown')
  ncalls = sum(1 for h in case['history'] if h[0] == 'call')
  if ncalls >= 5:
    ctx.bucket('history:5+calls')
  feats = set()
  for b in case['binds']:
    feats |= c04.tree_feats(b[3]) if b[3][0] not in ('obj', 'const') else {b[3][0]}
  ctx.fp(tuple((s['shape'], len(s['pos']), len(s['dflt']), len(s['kwonly']), bool(s.get('allow')), bool(s.get('deny'))) for s in case['specs']),
         tuple(sorted(feats)), tuple(sorted({tuple(h[2]) for h in case['history'] if h[0] == 'call'})), ncalls,
         tuple(tuple(sorted(h[3].items())) for h in case['history'] if h[0] == 'call'))
  ctx.sample({'specs': case['specs'], 'history': case['history'], 'operative_text': text[:700]}, cap=2)

  # ---- a failed call (macro without a value) must not break the operative config string
  if ctx.case_no % 4 == 0:
    ctx.bucket('history:failed-call-on-unbound-macro')
    with gin.unlock_config():
      gin.parse_config('c7never.z = %c7_macro_without_value')
    try:
      _S['never'].conf()
      ctx.check(False, 'unbound-macro-use-succeeded', 'a call using a macro without value succeeded')
    except Exception:  # pylint: disable=broad-except
      pass
    try:
      t3 = gin.operative_config_str()
      snap.parse_text(t3)
      ctx.count('oracle_evals')
    except Exception as e:  # pylint: disable=broad-except
      ctx.check(False, 'operative-config-str-raises', 'after a failed call on an unbound macro operative_config_str() raised/does not parse: %r' % (e,))
    return

  # ---- replay
  rebinds = any(h[0] in ('rebind', 'remacro') for h in case['history'])
  if all_repr and not rebinds:
    gin.clear_config()
    try:
      gin.parse_config(text)
    except Exception as e:  # pylint: disable=broad-except
      ctx.check(False, 'operative-config-does-not-reparse', 'parse_config(operative_config_str()) failed: %r\n%s' % (e, text[:800]))
      return
    obs2 = run_history(ctx, case, plist, objs, None, 'replay')
    ctx.count('replays')
    ctx.bucket('replay:done')
    for a, b in zip(obs1, obs2):
      ctx.check(a == b, 'replay-differs', 'replaying the operative config: first run %r, replay %r' % (a, b), {'text': text[:1500]})
    text2 = gin.operative_config_str()
    ctx.check(text2 == text, 'replay-text-differs', 'operative text after replay differs:\n%s\n---\n%s' % (text[:700], text2[:700]))


def const_text(t):
  k = t[0]
  if k == 'const':
    return '%' + t[1]
  if k in ('list', 'tuple'):
    inner = ', '.join(const_text(x) for x in t[1])
    return '[' + inner + ']' if k == 'list' else '(' + inner + (',)' if len(t[1]) == 1 else ')')
  if k == 'dict':
    return '{' + ', '.join('%s: %s' % (const_text(a), const_text(b)) for a, b in t[1]) + '}'
  return c04.tree_text(t)


LEVEL_TEXT = ('Runtime monitor with an operative-record reference model: after generated call histories the real operative_config_str() is re-parsed '
              'with gin\'s own parser and compared exactly (sections = called (scope, configurable) pairs, parameters = Gin-supplied representable '
              'values incl. filtered defaults, macro section, no constants), and, when every supplied value is representable, the text is replayed on a '
              'cleared configuration and every call must receive equal arguments, run the same providers and reproduce the text.')
LEVEL_NOTE = ('Trusted: the operative model (~60 lines) and own representability classifier. A non-representable value following a representable one '
              'for the same parameter is excluded (DESIGN X).')
TECHNIQUE = 'runtime reference-model monitor + metamorphic replay (first run vs replay of the operative config)'
DESIGN_REF = 'DESIGN.md section 4, C07'
