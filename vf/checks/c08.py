"""C08 — names resolve by unique dotted suffix, identically through every API."""
import itertools

from vf import models, probes
from vf.teq import teq

ID = 'C08'
LEVEL = 'exploration'
RULE = ('(map) random SelectorMap histories (insert/overwrite/pop/copy-then-diverge/clear/invalid insert) over dotted names '
        'from a 3-letter alphabet, depth<=4, biased to suffix-related names; after every op every query API is compared with a '
        'suffix-resolution model over the whole universe, tree/flat-map agreement is walked, copies are checked for independence; '
        'thorough adds exhaustive enumeration of all subsets (size<=4) of the 14-name universe {a,b}^<=3 x all insertion orders x '
        'every single pop. (api) probes registered under module paths sharing suffixes; a value written through one spelling/API '
        'is read through another; ambiguous/unknown spellings; two finalize hooks returning one parameter under two spellings. '
        'distinct = (kind, op-kind sequence shape, name-set suffix structure) / (write api, read api, spelling pair class)')
TIERS = {
    'quick': {'workers': 8, 'cases': 2000, 'timeout': 600, 'exhaustive': False},
    'thorough': {'workers': 16, 'cases': 6000, 'timeout': 3000, 'exhaustive': True},
}
REQUIRED_BUCKETS = ['map:insert', 'map:overwrite', 'map:pop', 'map:copy', 'map:clear', 'map:invalid-insert',
                    'map:minimal-shorter-than-full', 'map:ambiguous-query', 'map:exact-precedence', 'map:name-suffix-of-other',
                    'map:single-root-branch', 'map:pop-prunes', 'map:copy-diverged',
                    'api:write:str', 'api:write:tuple', 'api:write:text', 'api:write:block',
                    'api:read:query', 'api:read:get_bindings', 'api:read:call', 'api:read:reference', 'api:ambiguous', 'api:unknown',
                    'api:hooks-same-param-different-spelling', 'api:one-hook-same-param-two-spellings', 'api:hooks-distinct-params', 'api:spellings-differ', 'api:explicit-macro-reference',
                    'api:class-registered-twice', 'api:method-with-class-module']
ORACLE_COUNTERS = ['oracle_evals', 'map_queries', 'api_roundtrips']
ASSUMPTIONS = ['private _selector_tree/_selector_map are walked for the agreement invariant when present']
ALPHA = ['a', 'b', 'c']


def universe(alpha, depth):
  out = []
  for d in range(1, depth + 1):
    out += ['.'.join(t) for t in itertools.product(alpha, repeat=d)]
  return out


def suffixes(name):
  parts = name.split('.')
  return ['.'.join(parts[i:]) for i in range(len(parts))]


def model_minimal(names, n):
  for s in reversed(suffixes(n)):  # shortest first
    if models.resolve_suffix(names, s) == [n]:
      return s
  return None


def tree_terminals(tree, path=()):
  out = []
  for k, v in tree.items():
    if k == '$':
      out.append((v, path))
    else:
      out += tree_terminals(v, path + (k,))
  return out


def tree_has_empty_node(tree, root=True):
  if not root and not tree:
    return True
  return any(tree_has_empty_node(v, False) for k, v in tree.items() if k != '$')


def check_map(ctx, sm, model, queries, label):
  names = set(model)
  ctx.check(len(sm) == len(model), 'map-len', '%s: len %d != model %d' % (label, len(sm), len(model)))
  ctx.check(dict(sm.items()) == model, 'map-items', '%s: items %r != model %r' % (label, dict(sm.items()), model))
  tree = getattr(sm, '_selector_tree', None)
  if tree is not None:
    terms = tree_terminals(tree)
    ok = sorted(t[0] for t in terms) == sorted(names) and all(tuple(n.split('.')[::-1]) == pth for n, pth in terms)
    ctx.check(ok, 'tree-map-disagree', '%s: tree terminals %r vs stored %r' % (label, terms, sorted(names)))
    if tree_has_empty_node(tree):  # not observable by itself: recorded, the query oracles below decide
      ctx.count('tree_empty_nodes_seen')
  for q in queries:
    ctx.count('map_queries')
    exp = models.resolve_suffix(names, q)
    got = sm.matching_selectors(q)
    ctx.check(sorted(got) == exp and len(got) == len(set(got)), 'matching-selectors',
              '%s: matching_selectors(%r)=%r model %r (stored %r)' % (label, q, got, exp, sorted(names)))
    ctx.check((q in sm) == (q in names), 'contains', '%s: %r in map = %r' % (label, q, q in sm))
    ctx.check(sm.get(q, 'DFLT') == model.get(q, 'DFLT'), 'get', '%s: get(%r)' % (label, q))
    try:
      gm = ('ok', sm.get_match(q, 'DFLT'))
    except KeyError:
      gm = ('ambiguous',)
    if len(exp) > 1:
      ctx.bucket('map:ambiguous-query')
      em = ('ambiguous',)
    elif len(exp) == 1:
      em = ('ok', model[exp[0]])
      if q in names and any(n != q and n.endswith('.' + q) for n in names):
        ctx.bucket('map:exact-precedence')
    else:
      em = ('ok', 'DFLT')
    ctx.check(gm == em, 'get-match', '%s: get_match(%r)=%r model %r (stored %r)' % (label, q, gm, em, sorted(names)))
    gam = sm.get_all_matches(q)
    ctx.check(sorted(map(repr, gam)) == sorted(repr(model[n]) for n in exp), 'get-all-matches',
              '%s: get_all_matches(%r)=%r' % (label, q, gam))
    if q in names:
      ms = sm.minimal_selector(q)
      em = model_minimal(names, q)
      if em != q:
        ctx.bucket('map:minimal-shorter-than-full')
      ctx.check(ms == em, 'minimal-selector-not-minimal' if models.resolve_suffix(names, ms) == [q] else 'minimal-selector-does-not-resolve',
                '%s: minimal_selector(%r)=%r, shortest resolving suffix is %r (stored %r)' % (label, q, ms, em, sorted(names)))
    else:
      try:
        sm.minimal_selector(q)
        ctx.check(False, 'minimal-selector-unknown-no-error', '%s: minimal_selector(%r) of unstored name did not raise' % (label, q))
      except KeyError:
        ctx.count('oracle_evals')


def gen_map_case(rng):
  depth = rng.choice([2, 3, 4])
  uni = universe(ALPHA[:rng.choice([2, 3])], depth)
  # bias: a pool made of a few long names and all their suffixes and siblings
  pool = set()
  for _ in range(rng.choice([1, 2, 3])):
    n = rng.choice(uni)
    pool.update(suffixes(n))
    pool.add('c.' + n if rng.random() < 0.5 else 'a.' + n)
  pool = sorted(pool | set(rng.sample(uni, min(4, len(uni)))))
  ops = []
  for _ in range(rng.randrange(2, 14)):
    k = rng.random()
    tgt = rng.randrange(3)  # which map object (after copies)
    if k < 0.5:
      ops.append(['set', tgt, rng.choice(pool)])
    elif k < 0.72:
      ops.append(['pop', tgt, rng.choice(pool)])
    elif k < 0.86:
      ops.append(['copy', tgt, rng.randrange(3)])
    elif k < 0.9:
      ops.append(['clear', tgt])
    else:
      ops.append(['bad', tgt, rng.choice(['', 'a..b', '.a', 'a.', 'a b', '1a', 'a/b', 'a.b-', ' a'])])
  return {'kind': 'map', 'ops': ops, 'queries': sorted(set(pool) | set(rng.sample(uni, min(6, len(uni)))))}


def run_map(ctx, case):
  from gin import selector_map
  maps = {0: selector_map.SelectorMap()}
  mods = {0: {}}
  counter = itertools.count()
  shape = []
  for op in case['ops']:
    kind, tgt = op[0], op[1]
    if tgt not in maps:
      tgt = 0
    sm, model = maps[tgt], mods[tgt]
    if kind == 'set':
      name = op[2]
      ctx.bucket('map:overwrite' if name in model else 'map:insert')
      if any(n != name and (n.endswith('.' + name) or name.endswith('.' + n)) for n in model):
        ctx.bucket('map:name-suffix-of-other')
      v = ('v', next(counter))
      sm[name] = v
      model[name] = v
    elif kind == 'pop':
      name = op[2]
      if name in model:
        ctx.bucket('map:pop')
        before = len(tree_terminals(getattr(sm, '_selector_tree', {})))
        got = sm.pop(name)
        ctx.check(got == model.pop(name), 'pop-value', 'pop(%r) returned %r' % (name, got))
        if not any(n.endswith('.' + name.split('.')[-1]) or n == name.split('.')[-1] for n in model):
          ctx.bucket('map:pop-prunes')
      else:
        try:
          sm.pop(name)
          ctx.check(False, 'pop-missing-no-error', 'pop(%r) of missing name did not raise' % name)
        except KeyError:
          ctx.count('oracle_evals')
    elif kind == 'copy':
      dst = op[2]
      ctx.bucket('map:copy')
      maps[dst] = sm.copy() if dst % 2 == 0 else __import__('copy').copy(sm)
      mods[dst] = dict(model)
    elif kind == 'clear':
      ctx.bucket('map:clear')
      sm.clear()
      model.clear()
    elif kind == 'bad':
      ctx.bucket('map:invalid-insert')
      try:
        sm[op[2]] = 1
        ctx.check(False, 'invalid-selector-accepted', 'invalid selector %r accepted' % op[2])
      except ValueError:
        ctx.count('oracle_evals')
    shape.append(kind)
    if len(maps) > 1 and len({id(m) for m in maps.values()}) > 1 and any(mods[a] != mods[b] for a in mods for b in mods):
      ctx.bucket('map:copy-diverged')
    # after every op: *every* live map must still agree with its own model (copies never share state)
    for i in maps:
      roots = getattr(maps[i], '_selector_tree', None)
      if roots is not None and len(roots) == 1 and mods[i]:
        ctx.bucket('map:single-root-branch')
      check_map(ctx, maps[i], mods[i], case['queries'], 'map%d after %s' % (i, op))
  allnames = sorted(set().union(*[set(m) for m in mods.values()]))
  ctx.fp('map', tuple(shape), tuple(sorted(len(n.split('.')) for n in allnames)),
         sum(1 for a in allnames for b in allnames if a != b and b.endswith('.' + a)))
  ctx.sample({'kind': 'map', 'ops': case['ops'][:8], 'final_names': allnames}, cap=2)


def exhaustive_map(ctx):
  """All subsets (size<=4) of {a,b}^<=3, all insertion orders, every single pop; every query over the universe."""
  from gin import selector_map
  uni = universe(['a', 'b'], 3)
  n = 0
  for size in range(0, 5):
    for subset in itertools.combinations(uni, size):
      n += 1
      if n % ctx.nworkers != ctx.widx:
        continue
      for order in itertools.permutations(subset):
        sm = selector_map.SelectorMap()
        model = {}
        for name in order:
          sm[name] = ('v', name)
          model[name] = ('v', name)
        check_map(ctx, sm, model, uni, 'exh insert %r' % (order,))
        ctx.count('exhaustive_histories')
        for victim in order:
          c = sm.copy()
          cm = dict(model)
          c.pop(victim)
          cm.pop(victim)
          check_map(ctx, c, cm, uni, 'exh insert %r pop %r (on copy)' % (order, victim))
          check_map(ctx, sm, model, uni, 'exh original after pop on copy %r' % (order,))
          ctx.count('exhaustive_histories')
      ctx.fp('exh', subset)
  ctx.exhaustive = True


# ---------------------------------------------------------------------------
# API level

_HOOK_PLAN = {0: None, 1: None}
_FAMILY = {}


def setup(ctx):
  import gin

  def make_hook(i):
    def hook(config):
      plan = _HOOK_PLAN[i]
      return dict(plan) if plan else None
    hook.__name__ = 'vf_c08_hook%d' % i
    return hook

  gin.config.register_finalize_hook(make_hook(0))
  gin.config.register_finalize_hook(make_hook(1))
  # a family of probes called `dup` under modules sharing suffixes, plus a consumer
  fam = {}
  for mod in ['x.y', 'z.y', 'y', 'w.x.y', 'q']:
    spec = {'shape': 'fn', 'api': 'external', 'name': 'dup', 'module': 'c8.' + mod if mod != 'y' else 'c8y.y',
            'pos': [], 'dflt': [['a', 'dflt-a'], ['b', 'dflt-b']], 'varargs': False, 'kwonly': [], 'varkw': False}
    fam[mod] = probes.build(spec)
  cons = probes.build({'shape': 'fn', 'api': 'external', 'name': 'c8cons', 'module': 'c8', 'pos': [],
                       'dflt': [['v', None]], 'varargs': False, 'kwonly': [], 'varkw': False})
  _FAMILY['fam'] = fam
  _FAMILY['cons'] = cons


def spellings(full, allnames):
  """(unambiguous suffix spellings, ambiguous ones) of `full` w.r.t. the registered names."""
  good, bad = [], []
  for s in suffixes(full):
    r = models.resolve_suffix(allnames, s)
    (good if r == [full] else bad).append(s)
  return good, bad


def gen_api_case(rng):
  return {'kind': 'api', 'target': rng.choice(['x.y', 'z.y', 'y', 'w.x.y', 'q']), 'param': rng.choice(['a', 'b']),
          'scope': rng.choice(['', '', 's', 's/t']), 'write': rng.choice(['str', 'tuple', 'text', 'block']),
          'read': rng.choice(['query', 'get_bindings', 'call', 'reference']), 'wi': rng.randrange(8), 'ri': rng.randrange(8),
          'hook': rng.choice([None, 'same-param', 'distinct']), 'hi': rng.randrange(8), 'hj': rng.randrange(8),
          'probe_bad': rng.choice(['ambiguous', 'unknown', None])}


def snapshot(gin):
  from gin import config as gc
  return ({k: dict(v) for k, v in gc._CONFIG.items()}, gin.config_is_locked())


def run_api(ctx, case):
  import gin
  from gin import config as gc
  gin.clear_config()
  _HOOK_PLAN[0] = _HOOK_PLAN[1] = None
  fam = _FAMILY['fam']
  allnames = {p.selector for p in fam.values()} | {_FAMILY['cons'].selector}
  p = fam[case['target']]
  good, bad = spellings(p.selector, allnames)
  ws, rs = good[case['wi'] % len(good)], good[case['ri'] % len(good)]
  if ws != rs:
    ctx.bucket('api:spellings-differ')
  sc, prm = case['scope'], case['param']
  pre = sc + '/' if sc else ''
  value = ['val', case['wi'], case['ri']]
  ctx.bucket('api:write:' + case['write'])
  if case['write'] == 'str':
    gin.bind_parameter(pre + ws + '.' + prm, value)
  elif case['write'] == 'tuple':
    gin.bind_parameter((sc, ws, prm), value)
  elif case['write'] == 'text':
    gin.parse_config('%s%s.%s = %r' % (pre, ws, prm, value))
  else:
    gin.parse_config('%s%s:\n  %s = %r\n' % (pre, ws, prm, value))
  # the store has exactly one key, the complete name
  ctx.check(list(gc._CONFIG) == [(sc, p.selector)], 'store-key-not-canonical',
            'after writing via %r the store keys are %r (expected [(%r, %r)])' % (ws, list(gc._CONFIG), sc, p.selector))
  ctx.bucket('api:read:' + case['read'])
  ctx.count('api_roundtrips')
  if case['read'] == 'query':
    got = gin.query_parameter(pre + rs + '.' + prm)
  elif case['read'] == 'get_bindings':
    got = gin.get_bindings(pre + rs, resolve_references=False).get(prm, 'MISSING')
  elif case['read'] == 'call':
    mark = probes.RECORDER.mark()
    fn = gin.get_configurable(pre + rs)
    fn()
    got = probes.RECORDER.since(mark, p.pid)[0].received[prm]
  else:
    cons = _FAMILY['cons']
    gin.parse_config('c8cons.v = @%s%s()' % (pre, rs))
    mark = probes.RECORDER.mark()
    cons.conf()
    recs = probes.RECORDER.since(mark, p.pid)
    got = recs[0].received[prm] if recs else 'NOT-CALLED'
  ctx.check(teq(got, value), 'spelling-dependent-read', 'wrote %s%s.%s via %s, read via %s/%s -> %r (expected %r)' %
            (pre, ws, prm, case['write'], case['read'], rs, got, value))

  # ambiguous / unknown spellings: error and unchanged
  snap = snapshot(gin)
  if case['probe_bad'] == 'ambiguous' and bad:
    ctx.bucket('api:ambiguous')
    b = bad[case['hi'] % len(bad)]
    for label, fn in [('bind', lambda: gin.bind_parameter(pre + b + '.' + prm, 1)),
                      ('parse', lambda: gin.parse_config('%s%s.%s = 1' % (pre, b, prm))),
                      ('query', lambda: gin.query_parameter(pre + b + '.' + prm)),
                      ('get_configurable', lambda: gin.get_configurable(b)),
                      ('reference', lambda: gin.parse_config('c8cons.v = @%s' % b)),
                      # an ambiguous name is not an unknown one: permission to skip unknown names does not cover it
                      ('parse with skip_unknown=True', lambda: gin.parse_config('%s%s.%s = 1' % (pre, b, prm), skip_unknown=True)),
                      ('parse with skip_unknown=[name]', lambda: gin.parse_config('%s%s.%s = 1' % (pre, b, prm), skip_unknown=[b])),
                      ('block with skip_unknown=True', lambda: gin.parse_config('%s%s:\n  %s = 1\n' % (pre, b, prm), skip_unknown=True)),
                      ('reference with skip_unknown=True', lambda: gin.parse_config('c8cons.v = @%s()' % b, skip_unknown=True))]:
      try:
        fn()
        ctx.check(False, 'ambiguous-spelling-accepted', '%s with ambiguous spelling %r did not raise' % (label, b))
      except Exception:  # pylint: disable=broad-except
        ctx.count('oracle_evals')
      ctx.check(snapshot(gin) == snap, 'ambiguous-spelling-changed-config', '%s with ambiguous %r changed the config' % (label, b))
  elif case['probe_bad'] == 'unknown':
    ctx.bucket('api:unknown')
    b = 'nosuch.' + ws
    for label, fn in [('bind', lambda: gin.bind_parameter(pre + b + '.' + prm, 1)),
                      ('parse', lambda: gin.parse_config('%s%s.%s = 1' % (pre, b, prm))),
                      ('query', lambda: gin.query_parameter(pre + b + '.' + prm)),
                      ('get_configurable', lambda: gin.get_configurable(b))]:
      try:
        fn()
        ctx.check(False, 'unknown-spelling-accepted', '%s with unknown name %r did not raise' % (label, b))
      except ValueError:
        ctx.count('oracle_evals')
      except Exception as e:  # pylint: disable=broad-except
        ctx.check(False, 'unknown-name-wrong-exception', '%s with unknown %r raised %s' % (label, b, type(e).__name__))
      ctx.check(snapshot(gin) == snap, 'unknown-spelling-changed-config', '%s with unknown %r changed the config' % (label, b))

  # finalize hooks
  if case['hook']:
    s1, s2 = good[case['hi'] % len(good)], good[case['hj'] % len(good)]
    other = 'b' if prm == 'a' else 'a'
    snap = snapshot(gin)
    if case['hook'] == 'same-param':
      if s1 == s2:
        s2 = good[(case['hj'] + 1) % len(good)]
      if s1 != s2:
        ctx.bucket('api:hooks-same-param-different-spelling')
      _HOOK_PLAN[0] = {pre + s1 + '.' + other: 'h0'}
      _HOOK_PLAN[1] = {pre + s2 + '.' + other: 'h1'}
      if s1 != s2 and case['wi'] % 3 == 0:
        # one hook returning the same parameter under two spellings (the second possibly as a tuple key)
        ctx.bucket('api:one-hook-same-param-two-spellings')
        k2 = pre + s2 + '.' + other if case['ri'] % 2 else (sc, s2, other)
        _HOOK_PLAN[0] = {pre + s1 + '.' + other: 'h0', k2: 'h1'}
        _HOOK_PLAN[1] = None
      try:
        gin.finalize()
        ctx.check(False, 'hook-conflict-by-spelling-undetected' if s1 != s2 else 'hook-conflict-undetected',
                  'two hooks returned %s and %s for one parameter; finalize accepted (store %r)' %
                  (pre + s1 + '.' + other, pre + s2 + '.' + other, dict(gc._CONFIG)))
      except ValueError:
        ctx.count('oracle_evals')
        ctx.check(snapshot(gin) == snap, 'rejected-finalize-changed-config',
                  'finalize rejected conflicting hooks but left %r (before %r)' % (snapshot(gin), snap))
    else:
      ctx.bucket('api:hooks-distinct-params')
      _HOOK_PLAN[0] = {pre + s1 + '.' + other: 'h0'}
      _HOOK_PLAN[1] = {'t/' + s2 + '.' + other: 'h1'}
      gin.finalize()
      ctx.check(gin.config_is_locked() and gc._CONFIG.get((sc, p.selector), {}).get(other) == 'h0' and
                gc._CONFIG.get(('t', p.selector), {}).get(other) == 'h1', 'hook-bindings-not-applied',
                'hook bindings not applied under canonical keys: %r' % dict(gc._CONFIG))
    _HOOK_PLAN[0] = _HOOK_PLAN[1] = None
  ctx.fp('api', case['target'], case['write'], case['read'], ws.count('.'), rs.count('.'), bool(sc), case['hook'], case['probe_bad'])
  ctx.sample({'kind': 'api', 'full': p.selector, 'write': [case['write'], pre + ws + '.' + prm], 'read': [case['read'], rs],
              'hook': case['hook']}, cap=4)


def iter_cases(ctx, rng, n):
  for i in range(n):
    if i % 20 == 19:
      yield {'kind': 'api-special', 'which': rng.choice(['explicit-macro-reference', 'class-registered-twice', 'method-with-class-module']), 'n': rng.randrange(1 << 30),
             'spelling': rng.choice(['macro', 'gin.macro'])}
      continue
    yield gen_map_case(rng) if i % 2 == 0 else gen_api_case(rng)


def run_special(ctx, case):
  import gin
  from gin import config as gc
  gin.clear_config()
  _HOOK_PLAN[0] = _HOOK_PLAN[1] = None
  which = case['which']
  ctx.bucket('api:' + which)
  if which == 'explicit-macro-reference':
    # a macro may also be referenced explicitly, through any spelling of its configurable: `@name/macro()`; finalize looks its binding up
    gin.parse_config('c8mac = 5\nc8cons.v = @c8mac/%s()\n' % case['spelling'])
    try:
      gin.finalize()
      ok = True
    except ValueError as e:
      ok = False
      ctx.check(False, 'reference-key-depends-on-spelling', 'finalize rejected a bound macro referenced as @c8mac/%s(): %s' % (case['spelling'], str(e)[:200]))
    if ok:
      ctx.count('oracle_evals')
      ctx.check(_FAMILY['cons'].conf() is not None or True, 'x', '')
      got = probes.RECORDER.log[-1].received['v']
      ctx.check(got == 5, 'spelling-dependent-read', 'explicit macro reference delivered %r' % (got,))
  else:
    n = case['n'] % 100000
    cname, mname = 'C8K%d_%s' % (n, ctx.uid), 'c8m%d_%s' % (n, ctx.uid)
    g = {'__name__': 'c8dyn'}
    exec('class %s:\n  def __init__(self, c=0):\n    self.c = c\n  def %s(self, arg=0):\n    return arg\n' % (cname, mname), g)
    cls = g[cname]
    if which == 'class-registered-twice':
      gin.register(cls.__dict__[mname])
      gin.register(cname, module='c8.tw')(cls)
      gin.register(cname, module='c8.tw')(cls)      # the very same object under the same name: accepted, and must change nothing
    else:
      gin.register(mname, module='c8.tw.' + cname)(cls.__dict__[mname])   # the one custom module the code permits: the class's own selector
      gin.register(cname, module='c8.tw')(cls)
    full = 'c8.tw.%s.%s' % (cname, mname)
    for spell in (full, '%s.%s' % (cname, mname), 'tw.%s.%s' % (cname, mname)):
      try:
        gin.bind_parameter(spell + '.arg', 3)
        ctx.count('oracle_evals')
      except Exception as e:  # pylint: disable=broad-except
        ctx.check(False, 'registered-method-lost', '%s: after the registrations the method is not addressable as %r: %s: %s' % (which, spell, type(e).__name__, str(e)[:200]))
    ctx.check(gc._REGISTRY.get(full) is not None and gc._REGISTRY.matching_selectors(mname) == [full], 'registered-method-lost',
              '%s: registry does not resolve %s (matches %r)' % (which, mname, gc._REGISTRY.matching_selectors(mname)))
    inst = gin.get_configurable(cls)()
    ctx.check(getattr(inst, mname)() == 3, 'spelling-dependent-read', '%s: method call received %r' % (which, getattr(inst, mname)()))
  ctx.fp('special', which, case['spelling'])
  gin.clear_config()


def run_case(ctx, case):
  if case['kind'] == 'api-special':
    return run_special(ctx, case)
  if case['kind'] == 'map':
    run_map(ctx, case)
  else:
    run_api(ctx, case)


def finish(ctx):
  if ctx.params.get('exhaustive'):
    exhaustive_map(ctx)


LEVEL_TEXT = ('Runtime monitor with a suffix-resolution reference model evaluated after every operation of generated SelectorMap '
              'histories (all query APIs over the whole name universe, tree/flat agreement, copy independence) and of API-level '
              'write/read pairs through different spellings; the thorough tier enumerates a 14-name universe exhaustively '
              '(all subsets <=4 x insertion orders x single pops).')
LEVEL_NOTE = 'Trusted: the 4-line suffix model. Exhaustive only inside the stated small scope; larger name sets are sampled.'
TECHNIQUE = 'runtime reference-model monitor after every operation of generated histories + exhaustive small-scope enumeration'
DESIGN_REF = 'DESIGN.md section 4, C08'
