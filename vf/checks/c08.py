"""C08 — names resolve by unique dotted suffix, identically through every API."""
import contextlib
import enum
import itertools
import re

from vf import models, probes
from vf.teq import teq, teq_unordered_dict

ID = 'C08'
LEVEL = 'exploration'
RULE = ('(map) random SelectorMap histories (insert/overwrite/pop/copy-then-diverge/clear/invalid insert) over dotted names '
        'from a 3-letter alphabet, depth<=4, biased to suffix-related names; after every op every query API is compared with a '
        'suffix-resolution model over the whole universe, tree/flat-map agreement is walked, copies are checked for independence; '
        'thorough adds exhaustive enumeration of all subsets (size<=4) of the 14-name universe {a,b}^<=3 x all insertion orders x '
        'every single pop. (api) probes registered under module paths sharing suffixes; a value written through one spelling/API '
        'is read through another (also through the function object itself); ambiguous/unknown spellings through every route; two '
        'finalize hooks returning one parameter under two spellings; section names of config_str/operative_config_str resolve back '
        'and are shortest. (history) a fresh family is registered one member at a time (module paths sharing suffixes, one complete '
        'name a dotted suffix of another): after every registration every spelling of the universe and every spelling used before is '
        're-judged by the model through the routes, the store is compared with a model store. (const) constants under module paths '
        'sharing suffixes (gin.constant / constants_from_enum), read through %name in flat/block/list/scoped bindings, query_parameter '
        'and get_bindings, before and after a later definition; names overlapping (one complete name a dotted suffix of another, '
        'longer-first inside interactive mode), re-judged after clear_config() (keeps them) and clear_config(clear_constants=True). '
        '(ref) in the history and methods families references @spelling (plain/evaluated/scoped) through every unambiguous spelling are '
        'stored; after every later registration what repr / config_str / operative_config_str report for them must resolve (model and '
        'gin itself) to the entry they were made to. (methods) classes of one fresh name under module paths sharing suffixes, each '
        'with same-named registered methods (two registration styles): entries module.Class and module.Class.method written/read '
        'through different spellings and routes, ambiguous Class.method, sections reported for them resolve and are shortest '
        '(methods: Class.method at least). SelectorMap values include falsy ones. '
        'distinct = (kind, op-kind sequence shape, name-set suffix structure) / (write api, read api, spelling pair class)')
TIERS = {
    'quick': {'workers': 8, 'cases': 2000, 'timeout': 600, 'exhaustive': False},
    'thorough': {'workers': 16, 'cases': 6000, 'timeout': 3000, 'exhaustive': True},
}
REQUIRED_BUCKETS = ['map:insert', 'map:overwrite', 'map:pop', 'map:copy', 'map:clear', 'map:invalid-insert',
                    'map:minimal-shorter-than-full', 'map:ambiguous-query', 'map:exact-precedence', 'map:name-suffix-of-other',
                    'map:single-root-branch', 'map:pop-prunes', 'map:copy-diverged',
                    'api:write:str', 'api:write:tuple', 'api:write:text', 'api:write:block',
                    'api:read:query', 'api:read:get_bindings', 'api:read:call', 'api:read:reference', 'api:ambiguous', 'api:unknown',
                    'api:hooks-same-param-different-spelling', 'api:one-hook-same-param-two-spellings', 'api:hooks-distinct-params', 'api:spellings-differ', 'api:explicit-macro-reference',
                    'api:class-registered-twice', 'api:method-with-class-module',
                    'map:falsy-value-read', 'map:getitem',
                    'api:read:obj-bindings', 'api:read:obj-call', 'api:ambiguous:get_bindings', 'api:unknown:get_bindings',
                    'api:unknown:reference', 'api:config-str-section', 'api:operative-config-str-section',
                    'api:config-str-minimal-shorter-than-full',
                    'hist:registration', 'hist:spelling-became-ambiguous', 'hist:spelling-moved-to-other-entry',
                    'hist:spelling-still-good', 'hist:exact-name-is-suffix-of-other', 'hist:unknown', 'hist:ambiguous',
                    'hist:object-spelling', 'hist:config-str-full-name-needed', 'hist:config-str-bare-name-suffices',
                    'const:define:constant', 'const:define:enum', 'const:unique', 'const:ambiguous', 'const:unknown',
                    'const:spelling-became-ambiguous', 'const:falsy-value',
                    'const:name-suffix-of-earlier-constant', 'const:earlier-constant-suffix-of-name', 'const:clear-config-keeps',
                    'const:clear-removes',
                    'ref:written-spelling-still-good', 'ref:written-spelling-became-ambiguous', 'ref:written-spelling-moved-to-other-entry',
                    'ref:reported-in-config-str', 'ref:reported-in-operative-config-str',
                    'meth:style:method-with-class-module', 'meth:style:method-first-renamed-by-class', 'meth:write:method',
                    'meth:write:class', 'meth:class-method-ambiguous', 'meth:section-class-method-not-unique',
                    'meth:section-class-method-suffices']
ORACLE_COUNTERS = ['oracle_evals', 'map_queries', 'api_roundtrips']
ASSUMPTIONS = ['private _selector_tree/_selector_map are walked for the agreement invariant when present']
ALPHA = ['a', 'b', 'c']
FALSY = [0, None, '', False, (), 0.0]   # stored values that a truthiness test would mistake for "absent"
_UNIQ = itertools.count()


def same(a, b):
  """The very value: same type, same repr (0, False, 0.0, '' and None stay apart)."""
  return a is b or (type(a) is type(b) and repr(a) == repr(b))


def universe(alpha, depth):
  out = []
  for d in range(1, depth + 1):
    out += ['.'.join(t) for t in itertools.product(alpha, repeat=d)]
  return out


def suffixes(name):
  parts = name.split('.')
  return ['.'.join(parts[i:]) for i in range(len(parts))]


def model_minimal(names, n):
  for s in reversed(suffixes(n)):  # shortest first
    if models.resolve_suffix(names, s) == [n]:
      return s
  return None


def tree_terminals(tree, path=()):
  out = []
  for k, v in tree.items():
    if k == '$':
      out.append((v, path))
    else:
      out += tree_terminals(v, path + (k,))
  return out


def tree_has_empty_node(tree, root=True):
  if not root and not tree:
    return True
  return any(tree_has_empty_node(v, False) for k, v in tree.items() if k != '$')


def check_map(ctx, sm, model, queries, label):
  names = set(model)
  ctx.check(len(sm) == len(model), 'map-len', '%s: len %d != model %d' % (label, len(sm), len(model)))
  items = dict(sm.items())
  ctx.check(len(items) == len(model) and all(n in items and same(items[n], model[n]) for n in model), 'map-items', '%s: items %r != model %r' % (label, items, model))
  tree = getattr(sm, '_selector_tree', None)
  if tree is not None:
    terms = tree_terminals(tree)
    ok = sorted(t[0] for t in terms) == sorted(names) and all(tuple(n.split('.')[::-1]) == pth for n, pth in terms)
    ctx.check(ok, 'tree-map-disagree', '%s: tree terminals %r vs stored %r' % (label, terms, sorted(names)))
    if tree_has_empty_node(tree):  # not observable by itself: recorded, the query oracles below decide
      ctx.count('tree_empty_nodes_seen')
  for q in queries:
    ctx.count('map_queries')
    exp = models.resolve_suffix(names, q)
    got = sm.matching_selectors(q)
    ctx.check(sorted(got) == exp and len(got) == len(set(got)), 'matching-selectors',
              '%s: matching_selectors(%r)=%r model %r (stored %r)' % (label, q, got, exp, sorted(names)))
    ctx.check((q in sm) == (q in names), 'contains', '%s: %r in map = %r' % (label, q, q in sm))
    ctx.check(same(sm.get(q, 'DFLT'), model.get(q, 'DFLT')), 'get', '%s: get(%r, default)' % (label, q))
    if q in names:  # a complete stored name resolves to exactly that entry, whatever the value
      ctx.bucket('map:getitem')
      try:
        ctx.check(same(sm[q], model[q]), 'getitem', '%s: map[%r] is not the stored %r' % (label, q, model[q]))
      except Exception as e:  # pylint: disable=broad-except
        ctx.check(False, 'getitem', '%s: map[%r] raised %s' % (label, q, type(e).__name__))
    try:
      gm = ('ok', sm.get_match(q, 'DFLT'))
    except KeyError:
      gm = ('ambiguous',)
    if len(exp) > 1:
      ctx.bucket('map:ambiguous-query')
      em = ('ambiguous',)
    elif len(exp) == 1:
      em = ('ok', model[exp[0]])
      if not model[exp[0]]:
        ctx.bucket('map:falsy-value-read')
      if q in names and any(n != q and n.endswith('.' + q) for n in names):
        ctx.bucket('map:exact-precedence')
    else:
      em = ('ok', 'DFLT')
    ctx.check(gm[0] == em[0] and (len(em) == 1 or same(gm[1], em[1])), 'get-match', '%s: get_match(%r)=%r model %r (stored %r)' % (label, q, gm, em, sorted(names)))
    gam = sm.get_all_matches(q)
    ctx.check(sorted(map(repr, gam)) == sorted(repr(model[n]) for n in exp), 'get-all-matches',   # (reprs of the FALSY values differ)
              '%s: get_all_matches(%r)=%r' % (label, q, gam))
    if q in names:
      ms = sm.minimal_selector(q)
      em = model_minimal(names, q)
      if em != q:
        ctx.bucket('map:minimal-shorter-than-full')
      ctx.check(ms == em, 'minimal-selector-not-minimal' if models.resolve_suffix(names, ms) == [q] else 'minimal-selector-does-not-resolve',
                '%s: minimal_selector(%r)=%r, shortest resolving suffix is %r (stored %r)' % (label, q, ms, em, sorted(names)))
    else:
      try:
        sm.minimal_selector(q)
        ctx.check(False, 'minimal-selector-unknown-no-error', '%s: minimal_selector(%r) of unstored name did not raise' % (label, q))
      except KeyError:
        ctx.count('oracle_evals')


def gen_map_case(rng):
  depth = rng.choice([2, 3, 4])
  uni = universe(ALPHA[:rng.choice([2, 3])], depth)
  # bias: a pool made of a few long names and all their suffixes and siblings
  pool = set()
  for _ in range(rng.choice([1, 2, 3])):
    n = rng.choice(uni)
    pool.update(suffixes(n))
    pool.add('c.' + n if rng.random() < 0.5 else 'a.' + n)
  pool = sorted(pool | set(rng.sample(uni, min(4, len(uni)))))
  ops = []
  for _ in range(rng.randrange(2, 14)):
    k = rng.random()
    tgt = rng.randrange(3)  # which map object (after copies)
    if k < 0.5:
      # the stored value: mostly a fresh tuple, sometimes a falsy value (index into FALSY)
      ops.append(['set', tgt, rng.choice(pool), rng.randrange(len(FALSY)) if rng.random() < 0.3 else None])
    elif k < 0.72:
      ops.append(['pop', tgt, rng.choice(pool)])
    elif k < 0.86:
      ops.append(['copy', tgt, rng.randrange(3)])
    elif k < 0.9:
      ops.append(['clear', tgt])
    else:
      ops.append(['bad', tgt, rng.choice(['', 'a..b', '.a', 'a.', 'a b', '1a', 'a/b', 'a.b-', ' a'])])
  return {'kind': 'map', 'ops': ops, 'queries': sorted(set(pool) | set(rng.sample(uni, min(6, len(uni)))))}


def run_map(ctx, case):
  from gin import selector_map
  maps = {0: selector_map.SelectorMap()}
  mods = {0: {}}
  counter = itertools.count()
  shape = []
  for op in case['ops']:
    kind, tgt = op[0], op[1]
    if tgt not in maps:
      tgt = 0
    sm, model = maps[tgt], mods[tgt]
    if kind == 'set':
      name = op[2]
      ctx.bucket('map:overwrite' if name in model else 'map:insert')
      if any(n != name and (n.endswith('.' + name) or name.endswith('.' + n)) for n in model):
        ctx.bucket('map:name-suffix-of-other')
      v = ('v', next(counter)) if len(op) < 4 or op[3] is None else FALSY[op[3]]
      sm[name] = v
      model[name] = v
    elif kind == 'pop':
      name = op[2]
      if name in model:
        ctx.bucket('map:pop')
        before = len(tree_terminals(getattr(sm, '_selector_tree', {})))
        got = sm.pop(name)
        ctx.check(same(got, model.pop(name)), 'pop-value', 'pop(%r) returned %r' % (name, got))
        if not any(n.endswith('.' + name.split('.')[-1]) or n == name.split('.')[-1] for n in model):
          ctx.bucket('map:pop-prunes')
      else:
        try:
          sm.pop(name)
          ctx.check(False, 'pop-missing-no-error', 'pop(%r) of missing name did not raise' % name)
        except KeyError:
          ctx.count('oracle_evals')
    elif kind == 'copy':
      dst = op[2]
      ctx.bucket('map:copy')
      maps[dst] = sm.copy() if dst % 2 == 0 else __import__('copy').copy(sm)
      mods[dst] = dict(model)
    elif kind == 'clear':
      ctx.bucket('map:clear')
      sm.clear()
      model.clear()
    elif kind == 'bad':
      ctx.bucket('map:invalid-insert')
      try:
        sm[op[2]] = 1
        ctx.check(False, 'invalid-selector-accepted', 'invalid selector %r accepted' % op[2])
      except ValueError:
        ctx.count('oracle_evals')
    shape.append(kind)
    if len(maps) > 1 and len({id(m) for m in maps.values()}) > 1 and any(mods[a] != mods[b] for a in mods for b in mods):
      ctx.bucket('map:copy-diverged')
    # after every op: *every* live map must still agree with its own model (copies never share state)
    for i in maps:
      roots = getattr(maps[i], '_selector_tree', None)
      if roots is not None and len(roots) == 1 and mods[i]:
        ctx.bucket('map:single-root-branch')
      check_map(ctx, maps[i], mods[i], case['queries'], 'map%d after %s' % (i, op))
  allnames = sorted(set().union(*[set(m) for m in mods.values()]))
  ctx.fp('map', tuple(shape), tuple(sorted(len(n.split('.')) for n in allnames)),
         sum(1 for a in allnames for b in allnames if a != b and b.endswith('.' + a)))
  ctx.sample({'kind': 'map', 'ops': case['ops'][:8], 'final_names': allnames}, cap=2)


def exhaustive_map(ctx):
  """All subsets (size<=4) of {a,b}^<=3, all insertion orders, every single pop; every query over the universe."""
  from gin import selector_map
  uni = universe(['a', 'b'], 3)
  n = 0
  for size in range(0, 5):
    for subset in itertools.combinations(uni, size):
      n += 1
      if n % ctx.nworkers != ctx.widx:
        continue
      for order in itertools.permutations(subset):
        sm = selector_map.SelectorMap()
        model = {}
        for k, name in enumerate(order):
          sm[name] = model[name] = ('v', name) if k % 2 else FALSY[(k // 2 + len(name)) % len(FALSY)]
        check_map(ctx, sm, model, uni, 'exh insert %r' % (order,))
        ctx.count('exhaustive_histories')
        for victim in order:
          c = sm.copy()
          cm = dict(model)
          c.pop(victim)
          cm.pop(victim)
          check_map(ctx, c, cm, uni, 'exh insert %r pop %r (on copy)' % (order, victim))
          check_map(ctx, sm, model, uni, 'exh original after pop on copy %r' % (order,))
          ctx.count('exhaustive_histories')
      ctx.fp('exh', subset)
  ctx.exhaustive = True


# ---------------------------------------------------------------------------
# API level

_HOOK_PLAN = {0: None, 1: None}
_FAMILY = {}


def setup(ctx):
  import gin

  def make_hook(i):
    def hook(config):
      plan = _HOOK_PLAN[i]
      return dict(plan) if plan else None
    hook.__name__ = 'vf_c08_hook%d' % i
    return hook

  gin.config.register_finalize_hook(make_hook(0))
  gin.config.register_finalize_hook(make_hook(1))
  # a family of probes called `dup` under modules sharing suffixes, plus a consumer
  fam = {}
  for mod in ['x.y', 'z.y', 'y', 'w.x.y', 'q']:
    spec = {'shape': 'fn', 'api': 'external', 'name': 'dup', 'module': 'c8.' + mod if mod != 'y' else 'c8y.y',
            'pos': [], 'dflt': [['a', 'dflt-a'], ['b', 'dflt-b']], 'varargs': False, 'kwonly': [], 'varkw': False}
    fam[mod] = probes.build(spec)
  cons = probes.build({'shape': 'fn', 'api': 'external', 'name': 'c8cons', 'module': 'c8', 'pos': [],
                       'dflt': [['v', None]], 'varargs': False, 'kwonly': [], 'varkw': False})
  _FAMILY['fam'] = fam
  _FAMILY['cons'] = cons

  # a holder of references (any parameter name): what a stored reference is *reported* as is judged after later registrations
  def c8refs(**kw):
    return kw
  _FAMILY['refs'] = gin.external_configurable(c8refs, name='c8refs', module='c8')


def spellings(full, allnames):
  """(unambiguous suffix spellings, ambiguous ones) of `full` w.r.t. the registered names."""
  good, bad = [], []
  for s in suffixes(full):
    r = models.resolve_suffix(allnames, s)
    (good if r == [full] else bad).append(s)
  return good, bad


def scope_ctx(gin, sc):
  return gin.config_scope(sc) if sc else contextlib.nullcontext()


def write_binding(gin, how, sc, spelling, prm, value):
  pre = sc + '/' if sc else ''
  if how == 'str':
    gin.bind_parameter(pre + spelling + '.' + prm, value)
  elif how == 'tuple':
    gin.bind_parameter((sc, spelling, prm), value)
  elif how == 'text':
    gin.parse_config('%s%s.%s = %r' % (pre, spelling, prm, value))
  else:
    gin.parse_config('%s%s:\n  %s = %r\n' % (pre, spelling, prm, value))


def ambiguous_routes(gin, sc, b, prm):
  """Every route through which the (ambiguous) name `b` can be handed to gin; each must reject it.
  (label, call, parses text): the routes that parse text cost about ten times the others, see probe_ambiguous."""
  pre = sc + '/' if sc else ''
  return [('bind', lambda: gin.bind_parameter(pre + b + '.' + prm, 1), False),
          ('parse', lambda: gin.parse_config('%s%s.%s = 1' % (pre, b, prm)), True),
          ('query', lambda: gin.query_parameter(pre + b + '.' + prm), False),
          ('get_configurable', lambda: gin.get_configurable(b), False),
          ('reference', lambda: gin.parse_config('c8cons.v = @%s' % b), True),
          # an ambiguous name is not an unknown one: permission to skip unknown names does not cover it
          ('parse with skip_unknown=True', lambda: gin.parse_config('%s%s.%s = 1' % (pre, b, prm), skip_unknown=True), True),
          ('parse with skip_unknown=[name]', lambda: gin.parse_config('%s%s.%s = 1' % (pre, b, prm), skip_unknown=[b]), True),
          ('block with skip_unknown=True', lambda: gin.parse_config('%s%s:\n  %s = 1\n' % (pre, b, prm), skip_unknown=True), True),
          ('reference with skip_unknown=True', lambda: gin.parse_config('c8cons.v = @%s()' % b, skip_unknown=True), True),
          ('block', lambda: gin.parse_config('%s%s:\n  %s = 1\n' % (pre, b, prm)), True),
          ('scoped evaluated reference', lambda: gin.parse_config('c8cons.v = @s/%s()' % b), True),
          ('bind tuple', lambda: gin.bind_parameter((sc, b, prm), 1), False),
          ('get_bindings', lambda: gin.get_bindings(pre + b), False),
          ('get_bindings unscoped, unresolved', lambda: gin.get_bindings(b, resolve_references=False), False),
          ('get_configurable scoped', lambda: gin.get_configurable('s/' + b), False)]


def unknown_routes(gin, sc, b, prm):
  """(label, call, class established): routes for a name matching nothing.  The last four were added later: any exception is
  accepted there (the statement says "reported unknown", not how)."""
  pre = sc + '/' if sc else ''

  def reference():
    gin.parse_config('c8cons.v = @%s()' % b)    # reported when read or, at the latest, when the value is needed
    _FAMILY['cons'].conf()

  return [('bind', lambda: gin.bind_parameter(pre + b + '.' + prm, 1), True),
          ('parse', lambda: gin.parse_config('%s%s.%s = 1' % (pre, b, prm)), True),
          ('query', lambda: gin.query_parameter(pre + b + '.' + prm), True),
          ('get_configurable', lambda: gin.get_configurable(b), True),
          ('bind tuple', lambda: gin.bind_parameter((sc, b, prm), 1), False),
          ('get_bindings', lambda: gin.get_bindings(pre + b), False),
          ('get_configurable scoped', lambda: gin.get_configurable('s/' + b), False),
          ('reference', reference, False)]


def probe_ambiguous(ctx, gin, sc, b, prm, pick=None):
  """pick=None: every route.  Otherwise every route that parses no text, and two of those that do (chosen by `pick`)."""
  snap = snapshot(gin)
  routes = ambiguous_routes(gin, sc, b, prm)
  parsing = [i for i, r in enumerate(routes) if r[2]]
  chosen = () if pick is None else (parsing[pick % len(parsing)], parsing[(pick + 3) % len(parsing)])
  for i, (label, fn, parses) in enumerate(routes):
    if pick is not None and parses and i not in chosen:
      continue
    if label.startswith('get_bindings'):
      ctx.bucket('api:ambiguous:get_bindings')
    try:
      fn()
      ctx.check(False, 'ambiguous-spelling-accepted', '%s with ambiguous spelling %r did not raise' % (label, b))
    except Exception:  # pylint: disable=broad-except
      ctx.count('oracle_evals')
    ctx.check(snapshot(gin) == snap, 'ambiguous-spelling-changed-config', '%s with ambiguous %r changed the config' % (label, b))


def probe_unknown(ctx, gin, sc, b, prm, pick=None):
  snap = snapshot(gin)
  for i, (label, fn, strict) in enumerate(unknown_routes(gin, sc, b, prm)):
    if pick is not None and i not in (pick % 8, (pick + 3) % 8):
      continue
    if label in ('get_bindings', 'reference'):
      ctx.bucket('api:unknown:' + label)
    try:
      fn()
      ctx.check(False, 'unknown-spelling-accepted', '%s with unknown name %r did not raise' % (label, b))
      if label == 'reference':
        return   # (only on a broken tree) the binding to the unknown reference stays: nothing further to compare
    except ValueError:
      ctx.count('oracle_evals')
    except Exception as e:  # pylint: disable=broad-except
      ctx.check(not strict, 'unknown-name-wrong-exception', '%s with unknown %r raised %s' % (label, b, type(e).__name__))
    ctx.check(snapshot(gin) == snap, 'unknown-spelling-changed-config', '%s with unknown %r changed the config' % (label, b))


_SECTION = re.compile(r'^# Parameters for (.*):$', re.M)


def check_sections(ctx, text, which, names, last, entries=None, methods=()):
  """The names config_str()/operative_config_str() report for the family whose complete names end in `.last` (a name or a
  set of names): each resolves back to one entry and is the shortest suffix doing so.  `methods`: the complete names that
  are methods; gin addresses a method by `Class.method` at least (the bare method name is refused by design), so for them
  `Class.method` is accepted where the bare name would already be unique."""
  seen = []
  lasts = {last} if isinstance(last, str) else set(last)
  for scoped in _SECTION.findall(text):
    sc, _, sel = scoped.rpartition('/')
    if sel.split('.')[-1] not in lasts:
      continue
    ctx.bucket('api:%s-section' % which)
    r = models.resolve_suffix(names, sel)
    if not ctx.check(len(r) == 1, 'reported-name-does-not-resolve',
                     '%s reports a section for %r, which resolves to %r (registered %r)' % (which, scoped, r, sorted(names))):
      continue
    full = r[0]
    em = model_minimal(names, full)
    if full in methods:
      if '.' not in em:
        em = '.'.join(full.split('.')[-2:])
      ctx.bucket('meth:section-class-method-suffices' if em.count('.') == 1 else 'meth:section-class-method-not-unique')
    elif '.' not in em:
      ctx.bucket('hist:config-str-bare-name-suffices')
    if em != full:
      ctx.bucket('api:config-str-minimal-shorter-than-full')
    elif any(n != full and n.endswith('.' + full) for n in names):
      ctx.bucket('hist:config-str-full-name-needed')
    ctx.check(sel == em, 'reported-name-not-shortest', '%s reports %r for %s; the shortest suffix resolving to it is %r (registered %r)' %
              (which, sel, full, em, sorted(names)))
    seen.append((sc, full))
  if entries is not None:
    ctx.check(len(seen) == len(set(seen)) and set(seen) <= set(entries), 'reported-name-resolves-to-other-entry',
              '%s: sections resolve to %r, entries are %r' % (which, seen, sorted(entries)))


_REF = re.compile(r'^@(?:(.*)/)?([^/()\s]+?)(\(\))?$')
_REFLINE = re.compile(r'^(?:[\w.]+\.)?c8refs\.(\w+) = (?:\\\n\s+)?(\S+)$', re.M)


def partial_first(good, salt):
  """Two of the unambiguous spellings (longest first in `good`): partial ones - only they can change their meaning later -
  and the complete name now and then.  (Every stored reference costs a parse in each config_str.)"""
  part = good[1:]
  if not part or salt % 4 == 0:
    part = good[:1] + part
  return [part[(salt + i) % len(part)] for i in range(min(2, len(part)))]


def hold_references(ctx, gin, held, tag, full, spells, salt, evaluable=True):
  """Store `@spelling` (plain / evaluated / scoped, varied by `salt`) for every spelling in `spells` of the entry `full` in
  the reference holder, one parameter each, and keep the reference objects."""
  lines, new = [], []
  for j, sp in enumerate(spells):
    prm = 'r%s_%d' % (tag, j)
    ev = evaluable and (salt + j) % 2 == 1
    rsc = ['', 's', 's/t'][(salt + j) % 3] if (salt // 2 + j) % 2 else ''
    lines.append('c8refs.%s = @%s%s%s' % (prm, rsc + '/' if rsc else '', sp, '()' if ev else ''))
    new.append({'prm': prm, 'full': full, 'spelling': sp})
  try:
    gin.parse_config('\n'.join(lines) + '\n')
    for h in new:
      h['ref'] = gin.query_parameter('c8refs.' + h['prm'])
  except Exception as e:  # pylint: disable=broad-except
    ctx.check(False, 'unambiguous-spelling-rejected', 'references %r (every spelling resolves to %s alone) raised %s: %s' %
              (lines, full, type(e).__name__, str(e)[:200]))
    return
  for h in new:
    got = getattr(getattr(h['ref'], 'configurable', None), 'selector', None)
    if ctx.check(got == full, 'spelling-dependent-read', 'reference @%s resolved to %r, model %s' % (h['spelling'], got, full)):
      held.append(h)


def judge_reported_reference(ctx, rep, h, names, label, where):
  m = _REF.match(rep)
  if not ctx.check(m is not None, 'reported-reference-does-not-resolve', '%s: %s reports the reference to %s (written @%s) as %r' %
                   (label, where, h['full'], h['spelling'], rep)):
    return
  r = models.resolve_suffix(names, m.group(2))
  ctx.count('oracle_evals')
  ctx.check(r == [h['full']], 'reported-reference-resolves-to-other-entry' if len(r) == 1 else 'reported-reference-does-not-resolve',
            '%s: %s reports the reference to %s (written @%s) as %r, which resolves to %r (registered %r)' %
            (label, where, h['full'], h['spelling'], rep, r, sorted(names)))


def check_held_references(ctx, gin, held, names, label, texts=(), reparse=False):
  """The name under which a stored reference is reported (repr, config_str, operative_config_str) resolves back to the entry
  the reference was made to, whatever has been registered since it was written.  (Only "resolves back" is demanded: gin keeps
  the spelling as written while it still identifies the entry, so the reported name need not be the shortest.)"""
  byprm = {h['prm']: h for h in held}
  reps = {}
  for h in held:
    now = models.resolve_suffix(names, h['spelling'])
    ctx.bucket('ref:written-spelling-still-good' if now == [h['full']] else
               'ref:written-spelling-became-ambiguous' if len(now) > 1 else 'ref:written-spelling-moved-to-other-entry')
    try:
      reps[h['prm']] = repr(h['ref'])
    except Exception as e:  # pylint: disable=broad-except
      ctx.check(False, 'reported-reference-does-not-resolve', '%s: repr of the reference to %s raised %s: %s' %
                (label, h['full'], type(e).__name__, str(e)[:200]))
      continue
    judge_reported_reference(ctx, reps[h['prm']], h, names, label, 'repr')
  for which, text in texts:
    for prm, val in _REFLINE.findall(text):
      if prm in byprm:
        ctx.bucket('ref:reported-in-' + which)
        judge_reported_reference(ctx, val, byprm[prm], names, label, which)
  if reparse and reps:
    # ... and gin itself resolves the reported names to the same entries
    order = sorted(reps)
    try:
      gin.parse_config(''.join('c8refs.z%s = %s\n' % (prm, reps[prm]) for prm in order))
      got = {prm: gin.query_parameter('c8refs.z' + prm).configurable.selector for prm in order}
    except Exception as e:  # pylint: disable=broad-except
      ctx.check(False, 'reported-reference-does-not-resolve', '%s: the reported references %r do not parse back: %s: %s' %
                (label, reps, type(e).__name__, str(e)[:200]))
      return
    for prm in order:
      ctx.check(got[prm] == byprm[prm]['full'], 'reported-reference-resolves-to-other-entry',
                '%s: the reference to %s is reported as %r, which gin resolves to %s' % (label, byprm[prm]['full'], reps[prm], got[prm]))


def gen_api_case(rng):
  return {'kind': 'api', 'target': rng.choice(['x.y', 'z.y', 'y', 'w.x.y', 'q']), 'param': rng.choice(['a', 'b']),
          'scope': rng.choice(['', '', 's', 's/t']), 'write': rng.choice(['str', 'tuple', 'text', 'block']),
          'read': rng.choice(['query', 'get_bindings', 'call', 'reference', 'obj-bindings', 'obj-call']), 'wi': rng.randrange(8), 'ri': rng.randrange(8),
          'hook': rng.choice([None, 'same-param', 'distinct']), 'hi': rng.randrange(8), 'hj': rng.randrange(8),
          'probe_bad': rng.choice(['ambiguous', 'unknown', None])}


def snapshot(gin):
  from gin import config as gc
  return ({k: dict(v) for k, v in gc._CONFIG.items()}, gin.config_is_locked())


def run_api(ctx, case):
  import gin
  from gin import config as gc
  gin.clear_config()
  _HOOK_PLAN[0] = _HOOK_PLAN[1] = None
  fam = _FAMILY['fam']
  allnames = {p.selector for p in fam.values()} | {_FAMILY['cons'].selector}
  p = fam[case['target']]
  good, bad = spellings(p.selector, allnames)
  ws, rs = good[case['wi'] % len(good)], good[case['ri'] % len(good)]
  if ws != rs:
    ctx.bucket('api:spellings-differ')
  sc, prm = case['scope'], case['param']
  pre = sc + '/' if sc else ''
  value = ['val', case['wi'], case['ri']]
  ctx.bucket('api:write:' + case['write'])
  write_binding(gin, case['write'], sc, ws, prm, value)
  # the store has exactly one key, the complete name
  ctx.check(list(gc._CONFIG) == [(sc, p.selector)], 'store-key-not-canonical',
            'after writing via %r the store keys are %r (expected [(%r, %r)])' % (ws, list(gc._CONFIG), sc, p.selector))
  ctx.bucket('api:read:' + case['read'])
  ctx.count('api_roundtrips')
  rs_spelling = rs
  if case['read'] == 'query':
    got = gin.query_parameter(pre + rs + '.' + prm)
  elif case['read'] == 'get_bindings':
    got = gin.get_bindings(pre + rs, resolve_references=False).get(prm, 'MISSING')
  elif case['read'] == 'call':
    mark = probes.RECORDER.mark()
    fn = gin.get_configurable(pre + rs)
    fn()
    got = probes.RECORDER.since(mark, p.pid)[0].received[prm]
  elif case['read'] == 'reference':
    cons = _FAMILY['cons']
    gin.parse_config('c8cons.v = @%s%s()' % (pre, rs))
    mark = probes.RECORDER.mark()
    cons.conf()
    recs = probes.RECORDER.since(mark, p.pid)
    got = recs[0].received[prm] if recs else 'NOT-CALLED'
  else:
    # the object spelling: the function itself (or its configurable wrapper) names exactly its own entry, however many
    # configurables share its name
    obj = p.original if case['ri'] % 2 else p.conf
    rs = 'object:' + ('original' if case['ri'] % 2 else 'wrapper')
    try:
      with scope_ctx(gin, sc):
        if case['read'] == 'obj-bindings':
          got = gin.get_bindings(obj, resolve_references=False).get(prm, 'MISSING')
        else:
          mark = probes.RECORDER.mark()
          gin.get_configurable(obj)()
          got = probes.RECORDER.since(mark, p.pid)[0].received[prm]
    except Exception as e:  # pylint: disable=broad-except
      got = 'RAISED'
      ctx.check(False, 'object-spelling-not-resolved', '%s through the %s of %s raised %s: %s' %
                (case['read'], rs, p.selector, type(e).__name__, str(e)[:200]))
  ctx.check(teq(got, value), 'spelling-dependent-read', 'wrote %s%s.%s via %s, read via %s/%s -> %r (expected %r)' %
            (pre, ws, prm, case['write'], case['read'], rs, got, value))

  # the names reported for the entry: they resolve back to it and are the shortest that do
  if case['hi'] % 2:
    check_sections(ctx, gin.config_str(), 'config-str', allnames, 'dup', entries=[(sc, p.selector)])
  elif case['read'] in ('call', 'reference', 'obj-call'):
    check_sections(ctx, gin.operative_config_str(), 'operative-config-str', allnames, 'dup')

  # ambiguous / unknown spellings: error and unchanged
  if case['probe_bad'] == 'ambiguous' and bad:
    ctx.bucket('api:ambiguous')
    probe_ambiguous(ctx, gin, sc, bad[case['hi'] % len(bad)], prm, pick=None if case['hj'] % 4 == 0 else case['hj'])
  elif case['probe_bad'] == 'unknown':
    ctx.bucket('api:unknown')
    # a name extended by a component nobody has; a string suffix that is not a suffix of components (`up` of `dup`)
    probe_unknown(ctx, gin, sc, 'nosuch.' + ws if case['hj'] % 3 else 'up', prm)

  # finalize hooks
  if case['hook']:
    s1, s2 = good[case['hi'] % len(good)], good[case['hj'] % len(good)]
    other = 'b' if prm == 'a' else 'a'
    snap = snapshot(gin)
    if case['hook'] == 'same-param':
      if s1 == s2:
        s2 = good[(case['hj'] + 1) % len(good)]
      if s1 != s2:
        ctx.bucket('api:hooks-same-param-different-spelling')
      _HOOK_PLAN[0] = {pre + s1 + '.' + other: 'h0'}
      _HOOK_PLAN[1] = {pre + s2 + '.' + other: 'h1'}
      if s1 != s2 and case['wi'] % 3 == 0:
        # one hook returning the same parameter under two spellings (the second possibly as a tuple key)
        ctx.bucket('api:one-hook-same-param-two-spellings')
        k2 = pre + s2 + '.' + other if case['ri'] % 2 else (sc, s2, other)
        _HOOK_PLAN[0] = {pre + s1 + '.' + other: 'h0', k2: 'h1'}
        _HOOK_PLAN[1] = None
      try:
        gin.finalize()
        ctx.check(False, 'hook-conflict-by-spelling-undetected' if s1 != s2 else 'hook-conflict-undetected',
                  'two hooks returned %s and %s for one parameter; finalize accepted (store %r)' %
                  (pre + s1 + '.' + other, pre + s2 + '.' + other, dict(gc._CONFIG)))
      except ValueError:
        ctx.count('oracle_evals')
        ctx.check(snapshot(gin) == snap, 'rejected-finalize-changed-config',
                  'finalize rejected conflicting hooks but left %r (before %r)' % (snapshot(gin), snap))
    else:
      ctx.bucket('api:hooks-distinct-params')
      _HOOK_PLAN[0] = {pre + s1 + '.' + other: 'h0'}
      _HOOK_PLAN[1] = {'t/' + s2 + '.' + other: 'h1'}
      gin.finalize()
      ctx.check(gin.config_is_locked() and gc._CONFIG.get((sc, p.selector), {}).get(other) == 'h0' and
                gc._CONFIG.get(('t', p.selector), {}).get(other) == 'h1', 'hook-bindings-not-applied',
                'hook bindings not applied under canonical keys: %r' % dict(gc._CONFIG))
    _HOOK_PLAN[0] = _HOOK_PLAN[1] = None
  rs = rs_spelling
  ctx.fp('api', case['target'], case['write'], case['read'], ws.count('.'), rs.count('.'), bool(sc), case['hook'], case['probe_bad'])
  ctx.sample({'kind': 'api', 'full': p.selector, 'write': [case['write'], pre + ws + '.' + prm], 'read': [case['read'], rs],
              'hook': case['hook']}, cap=4)


# ---------------------------------------------------------------------------
# API level, histories of registrations: a family of configurables sharing one (fresh) name is registered one member at a
# time; what a spelling means is decided by the names registered *now*, through every API alike.

HIST_LAYOUTS = [['p.x', 'p.z'], ['p.x', 'q.x'], ['p.x', 'r.p.x'], ['r.p.x', 'p.x'], ['x', 'p.x', 'q.p.x'], ['q.p.x', 'p.x', 'x'],
                ['p.x', 'p.z', 'q.z'], ['px.y', 'x.y'], ['x', 'y.x'], ['y.x', 'x', 'p.y.x']]
GOOD_ROUTES = ['query', 'get_bindings', 'call', 'reference', 'obj-bindings', 'obj-call']
HIST_VALUES = [0, '', None, False]


def gen_history_case(rng):
  if rng.random() < 0.7:
    mods = list(rng.choice(HIST_LAYOUTS))
  else:
    pool = ['.'.join(t) for d in (1, 2, 3) for t in itertools.product(['x', 'y', 'p'], repeat=d)]
    mods = rng.sample(pool, rng.choice([2, 3]))
  steps = [{'member': rng.randrange(3), 'wi': rng.randrange(8), 'write': rng.choice(['str', 'tuple', 'text', 'block']),
            'scope': rng.choice(['', '', 's', 's/t']), 'param': rng.choice(['a', 'b']), 'read': rng.choice(GOOD_ROUTES),
            'ri': rng.randrange(8), 'qi': rng.randrange(60), 'falsy': rng.randrange(len(HIST_VALUES)) if rng.random() < 0.25 else None}
           for _ in mods]
  return {'kind': 'history', 'mods': mods, 'steps': steps}


class Member:
  """A light configurable of the family: records what it is called with (probes.build costs three times the registration)."""

  def __init__(self, gin, name, mod):
    calls = self.calls = []

    def fn(a='dflt-a', b='dflt-b'):
      calls.append({'a': a, 'b': b})
    fn.__name__ = fn.__qualname__ = name
    self.original = fn
    self.conf = gin.external_configurable(fn, name=name, module=mod)
    self.selector = mod + '.' + name


def family_store(gin):
  from gin import config as gc
  cons = _FAMILY['cons'].selector
  return {k: dict(v) for k, v in gc._CONFIG.items() if k[1] not in (cons, 'c8.c8refs')}


def read_good(ctx, gin, member, spelling, sc, route, store, label):
  """Read the entry of `member` through the unambiguous `spelling` and `route`; expected values come from the model store."""
  pre = sc + '/' if sc else ''
  full = member.selector
  own = store.get((sc, full), {})
  over = models.overlay(store, full, sc.split('/') if sc else [])
  dflt = {'a': 'dflt-a', 'b': 'dflt-b'}
  received = dict(dflt, **over)
  ctx.count('api_roundtrips')
  try:
    if route == 'query':
      for prm in ('a', 'b'):
        try:
          got = ('ok', gin.query_parameter(pre + spelling + '.' + prm))
        except Exception:  # pylint: disable=broad-except
          got = ('raised',)
        exp = ('ok', own[prm]) if prm in own else ('raised',)
        ctx.check(got[0] == exp[0] and (got[0] == 'raised' or teq(got[1], exp[1])), 'spelling-dependent-read',
                  '%s: query_parameter(%r) -> %r, model %r (%s is %s)' % (label, pre + spelling + '.' + prm, got, exp, spelling, full))
      return
    if route == 'get_bindings':
      got = gin.get_bindings(pre + spelling, resolve_references=False)
      exp = over
    elif route == 'obj-bindings':
      with scope_ctx(gin, sc):
        got = gin.get_bindings(member.original if len(spelling) % 2 else member.conf)
      exp = over
    else:
      del member.calls[:]
      if route == 'call':
        gin.get_configurable(pre + spelling)()
      elif route == 'obj-call':
        with scope_ctx(gin, sc):
          gin.get_configurable(member.conf if len(spelling) % 2 else member.original)()
      else:
        gin.parse_config('c8cons.v = @%s%s()' % (pre, spelling))
        _FAMILY['cons'].conf()
      got = member.calls[0] if len(member.calls) == 1 else 'CALLED %d TIMES' % len(member.calls)
      exp = received
    ctx.check(teq_unordered_dict(got, exp), 'spelling-dependent-read', '%s: %s through %r (= %s, scope %r) -> %r, model %r' %
              (label, route, spelling, full, sc, got, exp))
  except Exception as e:  # pylint: disable=broad-except
    ctx.check(False, 'object-spelling-not-resolved' if route.startswith('obj-') else 'unambiguous-spelling-rejected',
              '%s: %s through %r (= %s, the only match among %r) raised %s: %s' %
              (label, route, spelling, full, 'the registered names', type(e).__name__, str(e)[:200]))


def history_queries(names, last):
  qs = set()
  for n in names:
    for sfx in suffixes(n):
      qs.add(sfx)
      qs.add('nosuch.' + sfx)
      if len(sfx.split('.')[0]) > 1 and sfx != last:
        qs.add(sfx[1:])       # a string suffix cutting a component in two: matches only if it is itself a suffix of components
  qs.add(last[1:])
  return sorted(qs)


def run_history(ctx, case):
  import gin
  gin.clear_config()
  _HOOK_PLAN[0] = _HOOK_PLAN[1] = None
  last = 'hh%d%s' % (next(_UNIQ), ctx.uid)
  members, names, store, used, held = [], set(), {}, [], []
  shape = []
  for k, (mod, st) in enumerate(zip(case['mods'], case['steps'])):
    p = Member(gin, last, mod)
    ctx.bucket('hist:registration')
    if any(n.endswith('.' + p.selector) or p.selector.endswith('.' + n) for n in names):
      ctx.bucket('hist:exact-name-is-suffix-of-other')
    members.append(p)
    names.add(p.selector)
    byfull = {m.selector: m for m in members}
    label = 'after registering %s' % ', '.join(m.selector for m in members)
    ctx.check(family_store(gin) == store, 'store-key-not-canonical', '%s: store %r, model %r' % (label, family_store(gin), store))
    # (a) every spelling a value was written through earlier is judged against the names registered now
    for (spell, sc, prm, was) in used:
      r = models.resolve_suffix(names, spell)
      if len(r) > 1:
        ctx.bucket('hist:spelling-became-ambiguous')
        probe_ambiguous(ctx, gin, sc, spell, prm)
      elif r == [was]:
        ctx.bucket('hist:spelling-still-good')
        read_good(ctx, gin, byfull[was], spell, sc, GOOD_ROUTES[(st['qi'] + len(spell)) % 4], store, label + ' (spelling used before)')
      else:
        ctx.bucket('hist:spelling-moved-to-other-entry')   # it now *is* the complete name of a later registration
        for route in ('query', 'get_bindings', 'call'):
          read_good(ctx, gin, byfull[r[0]], spell, sc, route, store, label + ' (spelling used before for %s)' % was)
    # (a') every reference stored earlier is still reported under a name that resolves to the entry it was made to
    check_held_references(ctx, gin, held, names, label)
    # (b) the whole universe of spellings, one route each
    sc, prm = st['scope'], st['param']
    qs = history_queries(names, last)
    for j, q in enumerate(qs):
      if (j + st['qi']) % ((len(qs) + 3) // 4):   # about four of them, which ones varies with the case
        continue
      r = models.resolve_suffix(names, q)
      if len(r) == 1:
        read_good(ctx, gin, byfull[r[0]], q, sc, GOOD_ROUTES[(st['qi'] + j) % 4], store, label)
      elif r:
        ctx.bucket('hist:ambiguous')
        probe_ambiguous(ctx, gin, sc, q, prm, pick=st['qi'] + j)
      else:
        ctx.bucket('hist:unknown')
        probe_unknown(ctx, gin, sc, q, prm, pick=st['qi'] + j)
    # (c) a value written through one unambiguous spelling of one member ...
    tgt = members[st['member'] % len(members)]
    good, _ = spellings(tgt.selector, names)
    ws, rs = good[st['wi'] % len(good)], good[st['ri'] % len(good)]
    value = ['val', k, st['wi']] if st['falsy'] is None else HIST_VALUES[st['falsy']]
    try:
      write_binding(gin, st['write'], sc, ws, prm, value)
    except Exception as e:  # pylint: disable=broad-except
      ctx.check(False, 'unambiguous-spelling-rejected', '%s: writing %s.%s (= %s) via %s raised %s: %s' %
                (label, ws, prm, tgt.selector, st['write'], type(e).__name__, str(e)[:200]))
      break
    store.setdefault((sc, tgt.selector), {})[prm] = value
    used.append((ws, sc, prm, tgt.selector))
    got = family_store(gin)
    ctx.check(set(got) == set(store) and all(teq_unordered_dict(got[key], store[key]) for key in store), 'store-key-not-canonical',
              '%s: after writing %s.%s via %s the store is %r, model %r' % (label, ws, prm, st['write'], got, store))
    # ... is read through another spelling / API, and through the objects themselves for every member
    read_good(ctx, gin, tgt, rs, sc, st['read'], store, label)
    final = k == len(case['mods']) - 1
    for m in (members if final else [tgt]):
      ctx.bucket('hist:object-spelling')
      read_good(ctx, gin, m, 'x' * (k + st['ri']), sc, 'obj-bindings' if (st['ri'] + k) % 2 else 'obj-call', store, label)
    # references to one member through every spelling that is unambiguous now (judged again after every later registration)
    rt = members[(st['member'] + st['qi']) % len(members)]
    hold_references(ctx, gin, held, str(k), rt.selector, partial_first(spellings(rt.selector, names)[0], st['qi']), st['qi'])
    texts = []
    if final or k == 0:   # (k == 0: a single member, the bare name is the shortest)
      texts.append(('config-str', gin.config_str()))
      check_sections(ctx, texts[-1][1], 'config-str', names, last, entries=list(store))
    if final:
      try:
        if st['qi'] % 2:     # the holder is used: the operative configuration reports the references too
          _FAMILY['refs']()
      except Exception as e:  # pylint: disable=broad-except
        ctx.check(False, 'spelling-dependent-read', '%s: evaluating the stored references raised %s: %s' % (label, type(e).__name__, str(e)[:200]))
      texts.append(('operative-config-str', gin.operative_config_str()))
      check_sections(ctx, texts[-1][1], 'operative-config-str', names, last)
    if texts:
      check_held_references(ctx, gin, held, names, label + ' (reports)', texts=texts, reparse=final)
    shape.append((st['write'], st['read'], ws.count('.'), bool(sc)))
  ctx.fp('history', tuple(m.count('.') for m in case['mods']),
         sum(1 for a in names for b in names if a != b and b.endswith('.' + a)), tuple(shape))
  ctx.sample({'kind': 'history', 'names': sorted(names), 'writes': [list(u) for u in used]}, cap=6)
  gin.clear_config()


# ---------------------------------------------------------------------------
# Classes of one (fresh) name under module paths sharing suffixes, each with registered methods of the same names: the
# entries `module.Class` and `module.Class.method` obey the same suffix rule through every API, and so do the names
# reported for them.  (One deviation by design, not judged: a method is never addressed by its bare name.)

METH_STYLES = ['method-with-class-module', 'method-first-renamed-by-class']
METH_ROUTES = ['query', 'get_bindings', 'call', 'call-via-class']
# OFF: gin really fails here (reproducer /tmp/impl2/C08/defect_1.py; same mechanism as the known finding
# C01 function-named-like-renamed-method...: the rename table is keyed by the method's OLD name).  Two classes of one Python
# module, each with a same-named method registered before its class: both methods are first `<pymodule>.<method>`, every
# wrapper looks that name up and finds only the LAST rename, so instances of the first class receive the bindings made for
# the second class's method (`A.run.steps = 1; B.run.steps = 2` -> A().run() gets 2).  While off, only the first class of a
# case registers its methods before the class; the later ones give the method the class's selector as module.
ENABLE_METHOD_FIRST_FOR_SEVERAL_CLASSES = False


def gen_methods_case(rng):
  if rng.random() < 0.7:
    mods = list(rng.choice(HIST_LAYOUTS))
  else:
    pool = ['.'.join(t) for d in (1, 2, 3) for t in itertools.product(['x', 'y', 'p'], repeat=d)]
    mods = rng.sample(pool, rng.choice([2, 3]))
  steps = [{'style': rng.choice(METH_STYLES), 'second': rng.random() < 0.4, 'on': rng.choice(['method', 'method', 'class', 'second']),
            'member': rng.randrange(3), 'wi': rng.randrange(8), 'ri': rng.randrange(8), 'qi': rng.randrange(60),
            'write': rng.choice(['str', 'tuple', 'text', 'block']), 'scope': rng.choice(['', '', 's', 's/t']),
            'read': rng.choice(METH_ROUTES)} for _ in mods]
  return {'kind': 'methods', 'mods': mods, 'steps': steps}


def read_entry(ctx, gin, ent, spelling, sc, route, store, label):
  """Read the entry `ent` (a class or one of its methods) through the unambiguous `spelling`; expectation from the model store."""
  pre = sc + '/' if sc else ''
  full, prm = ent['full'], ent['prm']
  own = store.get((sc, full), {})
  over = models.overlay(store, full, sc.split('/') if sc else [])
  exp = over.get(prm, 'dflt')
  ctx.count('api_roundtrips')
  try:
    if route == 'query':
      try:
        got = ('ok', gin.query_parameter(pre + spelling + '.' + prm))
      except Exception:  # pylint: disable=broad-except
        got = ('raised',)
      exp = ('ok', own[prm]) if prm in own else ('raised',)
      ok = got[0] == exp[0] and (got[0] == 'raised' or teq(got[1], exp[1]))
    elif route == 'get_bindings':
      got, exp = gin.get_bindings(pre + spelling, resolve_references=False), over
      ok = teq_unordered_dict(got, exp)
    elif ent['method'] is None:
      with scope_ctx(gin, sc if route == 'call-via-class' else ''):
        got = gin.get_configurable((pre if route == 'call' else '') + spelling)().c
      ok = teq(got, exp)
    elif route == 'call':       # the method's own configurable, through the spelling, on a plain instance
      got = gin.get_configurable(pre + spelling)(ent['cls']())
      ok = teq(got, exp)
    else:                       # an instance made by the class's configurable; the method called inside the scope
      inst = gin.get_configurable(ent['cls'])()
      with scope_ctx(gin, sc):
        got = getattr(inst, ent['method'])()
      ok = teq(got, exp)
    ctx.check(ok, 'spelling-dependent-read', '%s: %s through %r (= %s, scope %r) -> %r, model %r' % (label, route, spelling, full, sc, got, exp))
  except Exception as e:  # pylint: disable=broad-except
    ctx.check(False, 'unambiguous-spelling-rejected', '%s: %s through %r (= %s, its only match) raised %s: %s' %
              (label, route, spelling, full, type(e).__name__, str(e)[:200]))


def run_methods(ctx, case):
  import gin
  gin.clear_config()
  _HOOK_PLAN[0] = _HOOK_PLAN[1] = None
  u = '%d%s' % (next(_UNIQ), ctx.uid)
  cname, mname, m2 = 'CW8' + u, 'mm8' + u, 'nn8' + u   # (minus the first letter still identifiers, see history_queries)
  names, methods, entries, store, held, shape = set(), set(), {}, {}, [], []
  for k, (mod, st) in enumerate(zip(case['mods'], case['steps'])):
    g = {'__name__': 'c8dyn'}
    exec("class %s:\n  def __init__(self, c='dflt'):\n    self.c = c\n  def %s(self, arg='dflt'):\n    return arg\n"
         "  def %s(self, arg='dflt'):\n    return arg\n" % (cname, mname, m2), g)
    cls = g[cname]
    mine = [mname, m2] if st['second'] else [mname]
    cfull = mod + '.' + cname
    style = st['style'] if k == 0 or ENABLE_METHOD_FIRST_FOR_SEVERAL_CLASSES else METH_STYLES[0]
    ctx.bucket('meth:style:' + style)
    for m in mine:
      if style == 'method-with-class-module':
        gin.register(m, module=cfull)(cls.__dict__[m])
      else:
        gin.register(cls.__dict__[m])     # under the function's own module first; registering the class renames it
    gin.register(cname, module=mod)(cls)
    new = [{'full': cfull, 'method': None, 'prm': 'c', 'cls': cls}]
    new += [{'full': cfull + '.' + m, 'method': m, 'prm': 'arg', 'cls': cls} for m in mine]
    for e in new:
      entries[e['full']] = e
      names.add(e['full'])
      if e['method']:
        methods.add(e['full'])
    label = 'after registering the classes %s (methods %s)' % (', '.join(sorted(n for n in names if n not in methods)), '/'.join(mine))
    ctx.check(family_store(gin) == store, 'store-key-not-canonical', '%s: store %r, model %r' % (label, family_store(gin), store))
    check_held_references(ctx, gin, held, names, label)
    sc = st['scope']

    def usable(q, r):   # (the bare name of a method is refused by design: not judged)
      return not (len(r) == 1 and r[0] in methods and '.' not in q)

    # (a) the universe of spellings: about five of them, one route each
    qs = history_queries(names, cname)
    for j, q in enumerate(qs):
      if (j + st['qi']) % ((len(qs) + 4) // 5) and q != cname + '.' + mname:    # (`Class.method`: always)
        continue
      r = models.resolve_suffix(names, q)
      if not usable(q, r):
        continue
      if len(r) == 1:
        read_entry(ctx, gin, entries[r[0]], q, sc, METH_ROUTES[(st['qi'] + j) % 4], store, label)
      elif r:
        ctx.bucket('meth:ambiguous')
        if any(n in methods for n in r) and q.count('.') == 1:
          ctx.bucket('meth:class-method-ambiguous')
        probe_ambiguous(ctx, gin, sc, q, 'arg' if r[0] in methods else 'c', pick=st['qi'] + j)
      else:
        ctx.bucket('meth:unknown')
        probe_unknown(ctx, gin, sc, q, 'arg', pick=st['qi'] + j)
    # (b) a value written through one unambiguous spelling of one entry, read through another spelling / API
    cands = sorted(n for n in names if (n in methods) == (st['on'] != 'class') and (st['on'] != 'second' or n.endswith('.' + m2)))
    cands = cands or sorted(methods)
    ent = entries[cands[st['member'] % len(cands)]]
    good = [q for q in spellings(ent['full'], names)[0] if usable(q, [ent['full']])]
    ws, rs = good[st['wi'] % len(good)], good[st['ri'] % len(good)]
    value = ['val', k, st['wi']]
    ctx.bucket('meth:write:' + ('method' if ent['method'] else 'class'))
    try:
      write_binding(gin, st['write'], sc, ws, ent['prm'], value)
    except Exception as e:  # pylint: disable=broad-except
      ctx.check(False, 'unambiguous-spelling-rejected', '%s: writing %s.%s (= %s) via %s raised %s: %s' %
                (label, ws, ent['prm'], ent['full'], st['write'], type(e).__name__, str(e)[:200]))
      break
    store.setdefault((sc, ent['full']), {})[ent['prm']] = value
    got = family_store(gin)
    ctx.check(set(got) == set(store) and all(teq_unordered_dict(got[key], store[key]) for key in store), 'store-key-not-canonical',
              '%s: after writing %s.%s via %s the store is %r, model %r' % (label, ws, ent['prm'], st['write'], got, store))
    read_entry(ctx, gin, ent, rs, sc, st['read'], store, label)
    # (c) references through every usable spelling (methods: not evaluated, there is no instance to call them on)
    hold_references(ctx, gin, held, str(k), ent['full'], partial_first(good, st['qi']), st['qi'], evaluable=ent['method'] is None)
    shape.append((style == METH_STYLES[0], st['second'], st['on'], st['write'], st['read'], ws.count('.'), bool(sc)))
    # (d) the names reported for the entries
    final = k == len(case['mods']) - 1
    if not final and k != st['qi'] % 2:
      continue
    texts = [('config-str', gin.config_str())]
    check_sections(ctx, texts[0][1], 'config-str', names, (cname, mname, m2), entries=list(store), methods=methods)
    if final:
      for e in entries.values():   # every entry is used once, so that the operative configuration lists all of them
        read_entry(ctx, gin, e, e['full'], '', 'call-via-class', store, label)
      texts.append(('operative-config-str', gin.operative_config_str()))
      check_sections(ctx, texts[1][1], 'operative-config-str', names, (cname, mname, m2), methods=methods)
    check_held_references(ctx, gin, held, names, label + ' (reports)', texts=texts, reparse=final)
  ctx.fp('methods', tuple(m.count('.') for m in case['mods']),
         sum(1 for a in names for b in names if a != b and b.endswith('.' + a)), tuple(shape))
  ctx.sample({'kind': 'methods', 'names': sorted(names)}, cap=4)
  gin.clear_config()


# ---------------------------------------------------------------------------
# Constants: the same suffix rule, through `%name`, query_parameter and get_bindings.

CONST_LAYOUTS = [(['pa.one', 'pb.two'], 'pc.one'), (['pa.one', 'pb.one'], 'pc.two'), (['pa.one', 'pa.two', 'pb.one'], None),
                 (['one', 'two'], 'three'), (['x.pa.one', 'y.pa.one', 'pb.two'], 'z.pb.two'), (['pa.one'], 'pb.one'),
                 (['pa.one', 'pb.two'], None),
                 # overlapping names: one complete name is a dotted suffix of another.  Shorter first is accepted anywhere;
                 # longer first only in interactive mode (see define)
                 (['one', 'pa.one'], 'x.pa.one'), (['pa.one', 'one'], None), (['x.pa.one', 'pa.one', 'pb.two'], 'one'),
                 (['pa.one', 'pb.one', 'one'], 'two'), (['y.pa.one', 'pb.two'], 'pa.one')]
CONST_CLEARS = [None, None, 'mid', 'end', 'both', 'constants']
CONST_VALUES = [1, 'two', [3, 'x'], 0, '', 2.5, {'k': 1}, False]
CONST_ROUTES = ['query', 'macro-flat', 'macro-block', 'macro-list', 'macro-scoped', 'get_bindings']


def gen_const_case(rng):
  mods, later = rng.choice(CONST_LAYOUTS)
  clear = rng.choice(CONST_CLEARS)
  if 'one' in mods or later in ('one', 'pa.one'):   # overlapping names: mostly with a clear somewhere
    clear = clear or rng.choice(CONST_CLEARS)
  return {'kind': 'const', 'mods': list(mods), 'later': later, 'define': rng.choice(['constant', 'constant', 'enum']),
          'values': rng.sample(range(len(CONST_VALUES)), 4), 'rot': rng.randrange(60), 'clear': clear}


def read_constant(gin, route, q):
  cons = _FAMILY['cons']
  if route == 'query':
    return gin.query_parameter(q)
  if route == 'macro-flat':
    gin.parse_config('c8cons.v = %%%s' % q)
  elif route == 'macro-block':
    gin.parse_config('c8cons:\n  v = %%%s\n' % q)
  elif route == 'macro-list':
    gin.parse_config('c8cons.v = [%%%s, 1]' % q)
  elif route == 'macro-scoped':
    gin.parse_config('sc/c8cons.v = %%%s' % q)
  else:
    gin.parse_config('c8cons.v = %%%s' % q)
    return gin.get_bindings('c8cons')['v']
  mark = probes.RECORDER.mark()
  with scope_ctx(gin, 'sc' if route == 'macro-scoped' else ''):
    cons.conf()
  got = probes.RECORDER.since(mark, cons.pid)[0].received['v']
  if route == 'macro-list':
    if not (type(got) is list and len(got) == 2 and got[1] == 1):
      return ('MALFORMED', got)
    return got[0]
  return got


def check_constants(ctx, gin, consts, last, label, rot):
  names = set(consts)
  qs = {sfx for n in names for sfx in suffixes(n)}
  full = sorted(names)[rot % len(names)]
  qs.update(['nosuch.' + full, 'nosuch.' + full.split('.', 1)[1], last[1:]])
  for j, q in enumerate(sorted(qs)):
    r = models.resolve_suffix(names, q)
    ctx.bucket('const:unique' if len(r) == 1 else 'const:ambiguous' if r else 'const:unknown')
    # two of the six routes for a name that matches something (which two varies with the case), one for an unknown name
    for route in [CONST_ROUTES[(rot + j) % 6], CONST_ROUTES[(rot + j + 3) % 6]][:2 if r else 1]:
      snap = snapshot(gin)
      try:
        got = ('ok', read_constant(gin, route, q))
      except Exception as e:  # pylint: disable=broad-except
        got = ('raised', type(e).__name__, str(e)[:120])
      if len(r) == 1:
        exp = consts[r[0]]
        if not exp:
          ctx.bucket('const:falsy-value')
        ok = got[0] == 'ok' and (type(got[1]) is type(exp) and got[1] == exp if isinstance(exp, enum.Enum) else teq(got[1], exp))
        ctx.check(ok, 'constant-spelling-dependent-read', '%s: %s of %r -> %r, model: %s = %r (defined %r)' %
                  (label, route, q, got, r[0], exp, sorted(names)))
      elif r:
        ctx.check(got[0] == 'raised', 'ambiguous-constant-accepted', '%s: %s of %r -> %r although it matches %r' % (label, route, q, got, r))
        if route == 'query':
          ctx.check(snapshot(gin) == snap, 'ambiguous-spelling-changed-config', '%s: query of ambiguous constant %r changed the config' % (label, q))
      else:
        ctx.check(got[0] == 'raised', 'unknown-constant-accepted', '%s: %s of %r -> %r although no constant matches (defined %r)' %
                  (label, route, q, got, sorted(names)))


def run_const(ctx, case):
  import gin
  gin.clear_config(clear_constants=True)
  _HOOK_PLAN[0] = _HOOK_PLAN[1] = None
  last = 'KK%d%s' % (next(_UNIQ), ctx.uid)    # (last[1:] is an identifier too: a string suffix, not a suffix of components)
  consts = {}
  ctx.bucket('const:define:' + case['define'])

  def define(mod, i):
    full = '%s.%s' % (mod, last)
    # a new name that is a dotted suffix of an existing constant is only accepted in interactive mode
    shadows = bool(models.resolve_suffix(set(consts), full + ('.A' if case['define'] == 'enum' else '')))
    if shadows:
      ctx.bucket('const:name-suffix-of-earlier-constant')
    elif any((full + ('.A' if case['define'] == 'enum' else '')).endswith('.' + n) for n in consts):
      ctx.bucket('const:earlier-constant-suffix-of-name')
    with (gin.config.interactive_mode() if shadows else contextlib.nullcontext()):
      if case['define'] == 'enum':
        cls = enum.Enum(last, {'A': i + 1, 'B': 'b%d' % i})
        gin.constants_from_enum(cls, module=mod)
        consts[full + '.A'] = cls.A
        consts[full + '.B'] = cls.B
      else:
        v = CONST_VALUES[case['values'][i % len(case['values'])]]
        gin.constant(full, v)
        consts[full] = v

  def clear(when):
    """clear_config() is documented to keep the constants: every spelling resolves as before (whether the call itself
    succeeds is not this property's business; what the names mean afterwards is)."""
    if case.get('clear') not in (when, 'both'):
      return
    ctx.bucket('const:clear-config-keeps')
    if any(a != b and a.endswith('.' + b) for a in consts for b in consts):
      ctx.bucket('const:clear-config-keeps-overlapping-names')
    try:
      gin.clear_config()
    except Exception:  # pylint: disable=broad-except
      ctx.count('const_clear_raised')
    check_constants(ctx, gin, consts, last, 'constants %r (defined in this order) after clear_config()' % list(consts), case['rot'] + 2)

  for i, mod in enumerate(case['mods']):
    define(mod, i)
  check_constants(ctx, gin, consts, last, 'constants %r' % sorted(consts), case['rot'])
  clear('mid')
  if case['later']:
    before = {q for n in consts for q in suffixes(n) if len(models.resolve_suffix(set(consts), q)) == 1}
    define(case['later'], len(case['mods']))
    if any(len(models.resolve_suffix(set(consts), q)) > 1 for q in before):
      ctx.bucket('const:spelling-became-ambiguous')
    check_constants(ctx, gin, consts, last, 'constants %r (the last defined later)' % sorted(consts), case['rot'] + 1)
  clear('end')
  if case.get('clear') == 'constants':
    # the clear that removes them: afterwards every spelling is unknown
    ctx.bucket('const:clear-removes')
    gin.clear_config(clear_constants=True)
    for j, q in enumerate(sorted({sfx for n in consts for sfx in suffixes(n)})):
      route = CONST_ROUTES[(case['rot'] + j) % 6]
      try:
        got = ('ok', read_constant(gin, route, q))
      except Exception as e:  # pylint: disable=broad-except
        got = ('raised', type(e).__name__)
      ctx.check(got[0] == 'raised', 'unknown-constant-accepted', 'after clear_config(clear_constants=True): %s of %r -> %r' % (route, q, got))
  ctx.fp('const', tuple(case['mods']), case['later'], case['define'], case.get('clear'))
  ctx.sample({'kind': 'const', 'names': sorted(consts)}, cap=8)
  gin.clear_config(clear_constants=True)


def iter_cases(ctx, rng, n):
  for i in range(n):
    if i % 20 == 3 or i % 40 == 13:
      yield gen_history_case(rng)
      continue
    if i % 40 == 7:
      yield gen_const_case(rng)
      continue
    if i % 80 == 27:
      yield gen_methods_case(rng)
      continue
    if i % 20 == 19:
      yield {'kind': 'api-special', 'which': rng.choice(['explicit-macro-reference', 'class-registered-twice', 'method-with-class-module']), 'n': rng.randrange(1 << 30),
             'spelling': rng.choice(['macro', 'gin.macro'])}
      continue
    yield gen_map_case(rng) if i % 2 == 0 else gen_api_case(rng)


def run_special(ctx, case):
  import gin
  from gin import config as gc
  gin.clear_config()
  _HOOK_PLAN[0] = _HOOK_PLAN[1] = None
  which = case['which']
  ctx.bucket('api:' + which)
  if which == 'explicit-macro-reference':
    # a macro may also be referenced explicitly, through any spelling of its configurable: `@name/macro()`; finalize looks its binding up
    gin.parse_config('c8mac = 5\nc8cons.v = @c8mac/%s()\n' % case['spelling'])
    try:
      gin.finalize()
      ok = True
    except ValueError as e:
      ok = False
      ctx.check(False, 'reference-key-depends-on-spelling', 'finalize rejected a bound macro referenced as @c8mac/%s(): %s' % (case['spelling'], str(e)[:200]))
    if ok:
      ctx.count('oracle_evals')
      ctx.check(_FAMILY['cons'].conf() is not None or True, 'x', '')
      got = probes.RECORDER.log[-1].received['v']
      ctx.check(got == 5, 'spelling-dependent-read', 'explicit macro reference delivered %r' % (got,))
  else:
    n = '%d_%d' % (case['n'] % 100000, next(_UNIQ))   # (the drawn number alone repeats within a long run: the names must be fresh)
    cname, mname = 'C8K%s_%s' % (n, ctx.uid), 'c8m%s_%s' % (n, ctx.uid)
    g = {'__name__': 'c8dyn'}
    exec('class %s:\n  def __init__(self, c=0):\n    self.c = c\n  def %s(self, arg=0):\n    return arg\n' % (cname, mname), g)
    cls = g[cname]
    if which == 'class-registered-twice':
      gin.register(cls.__dict__[mname])
      gin.register(cname, module='c8.tw')(cls)
      gin.register(cname, module='c8.tw')(cls)      # the very same object under the same name: accepted, and must change nothing
    else:
      gin.register(mname, module='c8.tw.' + cname)(cls.__dict__[mname])   # the one custom module the code permits: the class's own selector
      gin.register(cname, module='c8.tw')(cls)
    full = 'c8.tw.%s.%s' % (cname, mname)
    for spell in (full, '%s.%s' % (cname, mname), 'tw.%s.%s' % (cname, mname)):
      try:
        gin.bind_parameter(spell + '.arg', 3)
        ctx.count('oracle_evals')
      except Exception as e:  # pylint: disable=broad-except
        ctx.check(False, 'registered-method-lost', '%s: after the registrations the method is not addressable as %r: %s: %s' % (which, spell, type(e).__name__, str(e)[:200]))
    ctx.check(gc._REGISTRY.get(full) is not None and gc._REGISTRY.matching_selectors(mname) == [full], 'registered-method-lost',
              '%s: registry does not resolve %s (matches %r)' % (which, mname, gc._REGISTRY.matching_selectors(mname)))
    inst = gin.get_configurable(cls)()
    ctx.check(getattr(inst, mname)() == 3, 'spelling-dependent-read', '%s: method call received %r' % (which, getattr(inst, mname)()))
  ctx.fp('special', which, case['spelling'])
  gin.clear_config()


def run_case(ctx, case):
  if case['kind'] == 'api-special':
    return run_special(ctx, case)
  if case['kind'] == 'map':
    run_map(ctx, case)
  elif case['kind'] == 'history':
    run_history(ctx, case)
  elif case['kind'] == 'const':
    run_const(ctx, case)
  elif case['kind'] == 'methods':
    run_methods(ctx, case)
  else:
    run_api(ctx, case)


def finish(ctx):
  if ctx.params.get('exhaustive'):
    exhaustive_map(ctx)


LEVEL_TEXT = ('Runtime monitor with a suffix-resolution reference model evaluated after every operation of generated SelectorMap '
              'histories (all query APIs over the whole name universe, tree/flat agreement, copy independence) and of API-level '
              'write/read pairs through different spellings; the thorough tier enumerates a 14-name universe exhaustively '
              '(all subsets <=4 x insertion orders x single pops). Also at API level: families registered one member at a time '
              '(every spelling re-judged after every registration, a model of the binding store), constants, the object spelling, '
              'the names reported by config_str/operative_config_str for sections and for stored references, classes with '
              'registered methods under colliding names, overlapping constants across clear_config.')
LEVEL_NOTE = 'Trusted: the 4-line suffix model. Exhaustive only inside the stated small scope; larger name sets are sampled.'
TECHNIQUE = 'runtime reference-model monitor after every operation of generated histories + exhaustive small-scope enumeration'
DESIGN_REF = 'DESIGN.md section 4, C08'
