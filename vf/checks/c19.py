"""C19 — dynamic registration resolves names through the file's own imports."""
import json
import os
import random
import subprocess
import sys

from vf import core, pkgtree, snap

ID = 'C19'
LEVEL = 'exploration'
RULE = ('a fresh generated package per case (modules, equally named modules in a sub-package, functions, classes, nested class, methods); config texts '
        'enabling dynamic registration with random subsets of the four import forms and aliases, bindings of every object through every spelling its '
        'imports allow in random order of first use (class before/after its methods, method through another spelling than its class, references to a '
        'class created before its method is configured), included files with their own (colliding) imports. Oracles: the object reached through '
        'gin.get_configurable(<python object>) receives exactly the last value bound through any spelling; one config_str section per object; '
        'references created earlier see class and method bindings; names only imported by an includer/includee -> NameError, attribute misses -> '
        'AttributeError, bound name gin -> ValueError, late/aliased enabling and unknown __gin__ feature -> SyntaxError; config_str() re-parsed in the '
        'same process and in a fresh interpreter delivers the same values and reproduces the text. distinct = (import forms, spelling sequence, order class)')
TIERS = {
    'quick': {'workers': 8, 'cases': 160, 'timeout': 900, 'fresh_process_every': 12},
    'thorough': {'workers': 16, 'cases': 3000, 'timeout': 3400, 'fresh_process_every': 25},
}
REQUIRED_BUCKETS = ['import:plain', 'import:as', 'import:from', 'import:from-as', 'obj:function', 'obj:class', 'obj:nested-class', 'obj:method', 'obj:nested-method',
                    'spelling:two-for-one-object', 'order:class-then-method', 'order:method-then-class', 'order:method-via-other-spelling-than-class',
                    'ref:created-before-method-configured', 'ref:scoped', 'obj:registered-by-decorator-under-custom-name', 'obj:decorated-variant-of-another-object', 'include:own-imports', 'include:colliding-bound-name', 'error:name-from-includer', 'error:name-from-includee',
                    'error:attribute', 'error:gin-reserved', 'error:late-enabling', 'error:aliased-enabling', 'error:unknown-feature', 'error:unknown-feature-path', 'roundtrip:same-process',
                    'roundtrip:fresh-process', 'equally-named-modules', 'cross-parse:second-parse', 'cross-parse:include', 'cross-parse:includer', 'alias-collision:second-parse', 'alias-collision:include', 'alias-collision:sibling-plain-after-alias', 'alias-collision:sibling-plain-before-alias', 'alias-collision:same-file-rebind',
                    'alias-collision:includer']
ORACLE_COUNTERS = ['oracle_evals', 'deliveries_compared', 'roundtrips']
_S = {}

# objects: key -> (module path under PK, attribute chain, parameters, kind)
OBJECTS = {
    'alpha.fa': ('alpha', ['fa'], ['x', 'y'], 'function'),
    'alpha.K': ('alpha', ['K'], ['a', 'b'], 'class'),
    'alpha.K.meth': ('alpha', ['K', 'meth'], ['m'], 'method'),
    'alpha.K.other': ('alpha', ['K', 'other'], ['o'], 'method'),
    'alpha.K.Inner': ('alpha', ['K', 'Inner'], ['i'], 'nested-class'),
    'alpha.K.Inner.deep': ('alpha', ['K', 'Inner', 'deep'], ['d'], 'nested-method'),
    'alpha.fa_traced': ('alpha', ['fa_traced'], ['x', 'y'], 'function'),     # functools.wraps-decorated variant of alpha.fa: its own configurable
    'alpha.decorated': ('alpha', ['decorated'], ['z'], 'function'),          # registered by its module's decorator under a custom name
    'alpha.Outer.Nested': ('alpha', ['Outer', 'Nested'], ['n'], 'nested-class'),  # likewise, and nested in another class
    'beta.fb': ('beta', ['fb'], ['x'], 'function'),
    'beta.K': ('beta', ['K'], ['a'], 'class'),
    'sub.alpha.fa': ('sub.alpha', ['fa'], ['x'], 'function'),
    'sub.alpha.Deep': ('sub.alpha', ['Deep'], ['q'], 'class'),
    'sub.gamma.fg': ('sub.gamma', ['fg'], ['x'], 'function'),
}
# import forms: text template, (bound name, module path under PK ('' = the package itself))
IMPORTS = {
    'import PK.alpha': ('plain', 'PK', ''),
    'import PK.alpha as A1': ('as', 'A1', 'alpha'),
    'from PK import alpha': ('from', 'alpha', 'alpha'),
    'from PK import alpha as A3': ('from-as', 'A3', 'alpha'),
    'from PK import beta as B': ('from-as', 'B', 'beta'),
    'import PK.beta': ('plain', 'PK', ''),
    'import PK.sub.alpha as SA': ('as', 'SA', 'sub.alpha'),
    'from PK.sub import gamma': ('from', 'gamma', 'sub.gamma'),
    'from PK.sub import alpha as alpha2': ('from-as', 'alpha2', 'sub.alpha'),
}


def setup(ctx):
  _S['tree'] = pkgtree.Tree()


def finish(ctx):
  _S['tree'].cleanup()


def spellings(obj, imports):
  """All spellings of `obj` available through the chosen import statements."""
  mod, chain, _, _ = OBJECTS[obj]
  out = []
  for imp in imports:
    form, bound, path = IMPORTS[imp]
    if path == '':
      # `import PK.x` binds PK; only the imported submodule is guaranteed to be an attribute
      imported = imp.split()[1][len('PK.'):]
      if mod == imported:
        out.append('.'.join(['PK'] + mod.split('.') + chain))
    elif path == mod:
      out.append('.'.join([bound] + chain))
  return out


def iter_cases(ctx, rng, n):
  main_no = 0
  for i in range(n):
    if i % 40 == 9:
      yield {'kind': 'class-shape', 'which': rng.choice(['inherited-method', 'static-method', 'class-method']), 'order': rng.random() < 0.5}
      continue
    if i % 7 == 3:
      if rng.random() < 0.35:
        yield {'kind': 'alias-collision', 'how': rng.choice(['second-parse', 'include', 'includer', 'sibling-plain-after-alias', 'sibling-plain-before-alias', 'same-file-rebind']),
               'alias': rng.choice(['X', 'alpha', 'mod']), 'plain': rng.choice(['from PK import alpha', 'import PK.alpha']),
               'form': rng.choice(['import PK.%s as %s', 'from PK import %s as %s'])}
        continue
      yield {'kind': 'cross-parse', 'how': rng.choice(['second-parse', 'include', 'includer']), 'ref_import': rng.choice(['import PK.alpha as M1', 'from PK import alpha as M1', 'import PK.alpha']),
             'meth_import': rng.choice(['from PK import alpha', 'import PK.alpha as Z9', 'import PK.alpha']), 'scoped': rng.random() < 0.5,
             'second_method': rng.random() < 0.5}
      continue
    if i % 5 == 4:
      yield {'kind': 'errors', 'which': rng.choice(['name-from-includer', 'name-from-includee', 'attribute', 'gin-reserved', 'late-enabling', 'aliased-enabling',
                                                      'unknown-feature', 'unknown-feature-path']), 'seed': rng.randrange(1 << 30)}
      continue
    imports = rng.sample(sorted(IMPORTS), rng.choice([2, 3, 4, 5]))
    # two statements binding the same name in one file: the later wins (as in Python); keep the generator simple: distinct bound names except PK
    seen, keep = set(), []
    for imp in imports:
      b = IMPORTS[imp][1]
      if b in seen and b != 'PK':
        continue
      seen.add(b)
      keep.append(imp)
    imports = keep
    stmts = []
    avail = {o: spellings(o, imports) for o in OBJECTS}
    objs = [o for o in OBJECTS if avail[o]]
    for _ in range(rng.choice([2, 3, 5, 8])):
      if not objs:
        break
      o = rng.choice(objs)
      stmts.append(['bind', o, rng.choice(avail[o]), rng.choice(OBJECTS[o][2]), rng.randrange(1000), rng.choice(['', '', 'sc'])])
    if avail['sub.gamma.fg'] and avail['alpha.K'] and rng.random() < 0.5:
      pos = rng.randrange(len(stmts) + 1)
      rsc = rng.choice(['', 'rsc', 'rsc'])
      stmts.insert(pos, ['ref', 'sub.gamma.fg', rng.choice(avail['sub.gamma.fg']), 'ref', rng.choice(avail['alpha.K']), rsc])
      if rsc:
        stmts.insert(rng.randrange(len(stmts) + 1), ['bind', 'alpha.K', rng.choice(avail['alpha.K']), 'b', rng.randrange(1000), 'rsc'])
    include = None
    if rng.random() < 0.4:
      inc_imports = rng.sample(['from PK.sub import alpha', 'import PK.sub.alpha as A1', 'from PK import beta as B', 'from PK.sub import gamma as alpha2'], rng.choice([1, 2]))
      include = {'imports': inc_imports, 'pos': rng.randrange(len(stmts) + 1)}
    main_no += 1
    # decided here (not from the case number, whose residues are tied to the case kinds): which cases also go through a fresh interpreter
    yield {'kind': 'bindings', 'imports': imports, 'stmts': stmts, 'include': include, 'seed': rng.randrange(1 << 30),
           'fresh': main_no % ctx.params.get('fresh_process_every', 1 << 30) == 0}


INC_MAP = {'from PK.sub import alpha': ('alpha', 'sub.alpha.fa', 'alpha.fa', 'x'), 'import PK.sub.alpha as A1': ('A1', 'sub.alpha.fa', 'A1.fa', 'x'),
           'from PK import beta as B': ('B', 'beta.fb', 'B.fb', 'x'), 'from PK.sub import gamma as alpha2': ('alpha2', 'sub.gamma.fg', 'alpha2.fg', 'x')}


def resolve_obj(pk, obj):
  import importlib
  mod, chain, _, _ = OBJECTS[obj]
  o = importlib.import_module(pk + '.' + mod)
  for c in chain:
    o = getattr(o, c)
  return o


def deliver(gin, pk, expected_keys):
  """Call every object of interest through gin.get_configurable(<python object>) and report what it received."""
  out = {}
  for (scope, obj) in expected_keys:
    if obj == 'REF':
      inst = gin.get_configurable(resolve_obj(pk, 'sub.gamma.fg'))()[2]
      out[(scope, obj)] = {'a': inst.a, 'b': inst.b, 'm': inst.meth()[1]}
      continue
    mod, chain, params, kind = OBJECTS[obj]
    with gin.config_scope(scope or None):
      if kind == 'function':
        r = gin.get_configurable(resolve_obj(pk, obj))()
        if obj == 'alpha.fa_traced':
          out[(scope, obj)] = dict(zip(params, r[2:])) if r[0] == 'traced' else {'NOT-THE-DECORATED-VARIANT': r}
        else:
          out[(scope, obj)] = dict(zip(params, r[1:])) if r[0] != 'traced' else {'NOT-THE-BASE-FUNCTION': r}
      elif kind in ('class', 'nested-class'):
        inst = gin.get_configurable(resolve_obj(pk, obj))()
        out[(scope, obj)] = {p: getattr(inst, p) for p in params}
      else:
        cls_obj = '.'.join(obj.split('.')[:-1])
        inst = gin.get_configurable(resolve_obj(pk, cls_obj))()
        r = getattr(inst, chain[-1])()
        out[(scope, obj)] = {params[0]: r[1]}
  return out


DELIVER_SNIPPET = r'''
import sys, json
sys.path.insert(0, %(repo)r); sys.path.insert(0, %(verif)r); sys.path.insert(0, %(root)r)
import gin
from vf.checks import c19
gin.parse_config(open(%(cfg)r).read())
keys = [tuple(k) for k in json.load(open(%(keys)r))]
out = c19.deliver(gin, %(pk)r, keys)
print('@@' + json.dumps({'deliver': [[list(k), v] for k, v in out.items()], 'config_str': gin.config_str()}))
'''


def run_bindings(ctx, case):
  import gin
  from gin import config as gc
  gin.clear_config()
  pk = _S['tree'].new_package('c19')
  imports = case['imports']
  for imp in imports:
    ctx.bucket('import:' + IMPORTS[imp][0])
  lines = ['from __gin__ import dynamic_registration'] + [i.replace('PK', pk) for i in imports]
  model = {}
  first_use = {}
  spell_used = {}
  stmts = list(case['stmts'])
  inc_path = None
  body = []
  ref_created_at = None
  ref_scope = ''
  for idx, st in enumerate(stmts):
    if case['include'] and case['include']['pos'] == idx:
      body.append('INCLUDE')
    if st[0] == 'bind':
      _, obj, sp, prm, val, scope = st
      body.append('%s%s.%s = %d' % (scope + '/' if scope else '', sp.replace('PK', pk), prm, val))
      model.setdefault((scope, obj), {})[prm] = val
      first_use.setdefault(obj, idx)
      spell_used.setdefault(obj, set()).add(sp)
      ctx.bucket('obj:' + OBJECTS[obj][3])
      if obj in ('alpha.decorated', 'alpha.Outer.Nested'):
        ctx.bucket('obj:registered-by-decorator-under-custom-name')
      if obj == 'alpha.fa_traced':
        ctx.bucket('obj:decorated-variant-of-another-object')
    else:
      _, obj, sp, prm, refsp, rsc = st
      body.append('%s.%s = @%s%s()' % (sp.replace('PK', pk), prm, rsc + '/' if rsc else '', refsp.replace('PK', pk)))
      ref_created_at = idx
      ref_scope = rsc
      if rsc:
        ctx.bucket('ref:scoped')
      spell_used.setdefault('alpha.K', set()).add(refsp)
      first_use.setdefault('alpha.K', idx)
  if case['include'] and case['include']['pos'] >= len(stmts):
    body.append('INCLUDE')
  if any(len(v) > 1 for v in spell_used.values()):
    ctx.bucket('spelling:two-for-one-object')
  # order buckets
  for meth, cls in (('alpha.K.meth', 'alpha.K'), ('alpha.K.other', 'alpha.K'), ('alpha.K.Inner.deep', 'alpha.K.Inner')):
    if meth in first_use and cls in first_use:
      ctx.bucket('order:class-then-method' if first_use[cls] < first_use[meth] else 'order:method-then-class')
      cls_roots = {s.split('.')[0] for s in spell_used[cls]}
      meth_roots = {s.split('.')[0] for s in spell_used[meth]}
      if cls_roots != meth_roots:
        ctx.bucket('order:method-via-other-spelling-than-class')
  meth_after_ref = ref_created_at is not None and any(st[0] == 'bind' and st[1] in ('alpha.K.meth', 'alpha.K.other') and i > ref_created_at for i, st in enumerate(stmts))
  if meth_after_ref:
    ctx.bucket('ref:created-before-method-configured')
  if any(IMPORTS[i][2] == 'sub.alpha' for i in imports) and any(IMPORTS[i][2] == 'alpha' or (IMPORTS[i][2] == '' and 'alpha' in i) for i in imports):
    ctx.bucket('equally-named-modules')
  # included file with its own imports (possibly binding the same names to other modules)
  if case['include']:
    ctx.bucket('include:own-imports')
    inc_lines = ['from __gin__ import dynamic_registration'] + [i.replace('PK', pk) for i in case['include']['imports']]
    main_bound = {IMPORTS[i][1] for i in imports}
    for i in case['include']['imports']:
      bound, obj, sp, prm = INC_MAP[i]
      if bound in main_bound:
        ctx.bucket('include:colliding-bound-name')
      val = 5000 + len(inc_lines)
      inc_lines.append('inc/%s.%s = %d' % (sp, prm, val))
      model.setdefault(('inc', obj), {})[prm] = val
    inc_path = os.path.join(_S['tree'].root, pk + '_inc.gin')
    open(inc_path, 'w').write('\n'.join(inc_lines) + '\n')
    body = [("include '%s'" % inc_path) if b == 'INCLUDE' else b for b in body]
  text = '\n'.join(lines + body) + '\n'
  ctx.fp(tuple(sorted(IMPORTS[i][0] for i in imports)), tuple((st[0], st[1], st[2].split('.')[0]) for st in stmts), bool(case['include']))
  ctx.sample({'text': text.replace(pk, 'PK')}, cap=3)
  try:
    gin.parse_config(text)
  except Exception as e:  # pylint: disable=broad-except
    ctx.check(False, 'valid-dynamic-config-rejected', 'parse raised %s: %s\n%s' % (type(e).__name__, str(e)[:300], text))
    return
  keys = sorted(model)
  # objects reached through the python object receive exactly what was bound through any spelling
  expect = {}
  if ref_created_at is not None:
    # the instance built through the (possibly scoped) reference: class bindings of that scope + method bindings
    ka = model.get(('', 'alpha.K'), {})
    ks = model.get((ref_scope, 'alpha.K'), {}) if ref_scope else {}
    km = model.get(('', 'alpha.K.meth'), {})
    kms = model.get((ref_scope, 'alpha.K.meth'), {}) if ref_scope else {}
    expect[('', 'REF')] = {'a': ks.get('a', ka.get('a', 0)), 'b': ks.get('b', ka.get('b', 0)), 'm': kms.get('m', km.get('m', 0))}
  for (scope, obj) in keys:
    params = OBJECTS[obj][2]
    vals = {}
    for p in params:
      v = model.get(('', obj), {}).get(p, 0)
      if scope:
        v = model[(scope, obj)].get(p, v)
      vals[p] = v
    if OBJECTS[obj][3] in ('method', 'nested-method'):
      vals = {params[0]: vals[params[0]]}
    expect[(scope, obj)] = vals
  if ref_created_at is not None:
    keys = keys + [('', 'REF')]
  try:
    got = deliver(gin, pk, keys)
  except Exception as e:  # pylint: disable=broad-except
    ctx.check(False, 'delivery-failed', 'calling the configured objects raised %s: %s\n%s' % (type(e).__name__, str(e)[:300], text))
    return
  ctx.count('deliveries_compared')
  if got != expect:
    d = {k: (got.get(k), expect.get(k)) for k in expect if got.get(k) != expect.get(k)}
    key = 'binding-through-other-spelling-lost'
    if any(OBJECTS[k[1]][3] in ('class', 'nested-class') for k in d) and any(o in first_use for o in ('alpha.K.meth', 'alpha.K.other', 'alpha.K.Inner.deep')):
      key = 'class-binding-orphaned-by-method-registration'
    ctx.check(False, key, 'delivered (got, expected) %r\n%s' % (d, text.replace(pk, 'PK')))
  else:
    ctx.count('oracle_evals')
  # references created before the method was configured still build instances with class + method bindings
  if ref_created_at is not None:
    fg = gin.get_configurable(resolve_obj(pk, 'sub.gamma.fg'))
    r = fg()
    inst = r[2]
    exp_a = model.get(('', 'alpha.K'), {}).get('a', 0)
    exp_m = model.get(('', 'alpha.K.meth'), {}).get('m', 0)
    ok = getattr(inst, 'a', None) == exp_a and inst.meth()[1] == exp_m
    ctx.check(ok, 'reference-lost-bindings-after-method-registration',
              'instance built through an earlier reference has a=%r meth()->%r, expected a=%r m=%r\n%s' % (getattr(inst, 'a', None), inst.meth()[1], exp_a, exp_m, text.replace(pk, 'PK')))
  # one section per (scope, object)
  try:
    s = gin.config_str()
  except Exception as e:  # pylint: disable=broad-except
    ctx.check(False, 'config-str-raised', 'config_str() raised %s: %s' % (type(e).__name__, str(e)[:300].replace(pk, 'PK')))
    return
  nsec = sum(1 for l in s.splitlines() if l.startswith('# Parameters for '))
  want = len(set((k[0], k[1]) for k in snap.store_nonempty(gc)))
  objs_bound = len({(sc, o) for (sc, o) in model} | ({('', 'sub.gamma.fg')} if ref_created_at is not None else set()))
  ctx.check(nsec == objs_bound, 'sections-per-object', 'config_str has %d sections for %d configured (scope, object) pairs:\n%s' % (nsec, objs_bound, s.replace(pk, 'PK')))
  # ---- round trip in the same process
  gin.clear_config()
  try:
    gin.parse_config(s)
    got2 = deliver(gin, pk, keys)
    s2 = gin.config_str()
  except Exception as e:  # pylint: disable=broad-except
    ctx.check(False, 'config-str-roundtrip-failed', 're-parsing config_str() raised %s: %s\n%s' % (type(e).__name__, str(e)[:300], s.replace(pk, 'PK')))
    return
  ctx.count('roundtrips')
  ctx.bucket('roundtrip:same-process')
  ctx.check(got2 == expect, 'roundtrip-delivers-other-values', 'after re-parsing config_str(): %r expected %r\n%s' % (got2, expect, s.replace(pk, 'PK')))
  ctx.check(s2 == s, 'roundtrip-text-differs', 'config_str not idempotent:\n%s\n---\n%s' % (s.replace(pk, 'PK'), s2.replace(pk, 'PK')))
  # ---- and in a fresh interpreter
  if case.get('fresh'):
    cfg = os.path.join(_S['tree'].root, pk + '_rt.gin')
    kf = os.path.join(_S['tree'].root, pk + '_keys.json')
    open(cfg, 'w').write(s)
    json.dump([list(k) for k in keys], open(kf, 'w'))
    code = DELIVER_SNIPPET % {'repo': core.repo_root(), 'verif': core.VERIF, 'root': _S['tree'].root, 'cfg': cfg, 'keys': kf, 'pk': pk}
    try:
      r = subprocess.run([core.PY, '-c', code], capture_output=True, text=True, timeout=120, env=dict(os.environ, PYTHONHASHSEED='0'))
    except subprocess.TimeoutExpired:
      raise core.Inconclusive('fresh interpreter timed out')
    line = [l for l in r.stdout.splitlines() if l.startswith('@@')]
    if not ctx.check(bool(line), 'fresh-process-roundtrip-failed', 'fresh interpreter failed: %s\n%s' % (r.stderr[-600:], s.replace(pk, 'PK'))):
      return
    res = json.loads(line[0][2:])
    got3 = {tuple(k): v for k, v in res['deliver']}
    ctx.bucket('roundtrip:fresh-process')
    ctx.check(got3 == expect, 'fresh-process-delivers-other-values', 'fresh interpreter: %r expected %r' % (got3, expect))
    # registration names (hence section order and which alias a selector is printed with) derive from the spelling of first use, which a
    # fresh interpreter reading the re-aliased text does not share; the statement demands that every emitted selector resolves to the
    # same object (the deliveries above), not textual identity across interpreters
    ctx.count('fresh_process_texts_identical' if res['config_str'] == s else 'fresh_process_texts_differ_in_spelling_or_order')
  gin.clear_config()


def run_errors(ctx, case):
  import gin
  from gin import config as gc
  gin.clear_config()
  pk = _S['tree'].new_package('c19e')
  which = case['which']
  ctx.bucket('error:' + {'attribute': 'attribute', 'gin-reserved': 'gin-reserved'}.get(which, which))
  dyn = 'from __gin__ import dynamic_registration\n'
  inc_path = os.path.join(_S['tree'].root, pk + '_e.gin')
  exp = None
  if which == 'name-from-includer':
    open(inc_path, 'w').write(dyn + '%s.alpha.fa.x = 1\n' % pk)      # uses a name only the includer imported
    text = dyn + 'import %s.alpha\n%s.alpha.fa.y = 2\ninclude %r\n' % (pk, pk, inc_path)
    exp = NameError
  elif which == 'name-from-includee':
    open(inc_path, 'w').write(dyn + 'from %s import beta as B\nB.fb.x = 1\n' % pk)
    text = dyn + 'import %s.alpha\ninclude %r\nB.fb.x = 2\n' % (pk, inc_path)
    exp = NameError
  elif which == 'attribute':
    text = dyn + 'import %s.alpha\n%s.alpha.K.nometh.m = 1\n' % (pk, pk)
    exp = AttributeError
  elif which == 'gin-reserved':
    text = dyn + random.Random(case['seed']).choice(['from %s import alpha as gin\n', 'import %s.beta as gin\n']) % pk
    exp = ValueError
  elif which == 'late-enabling':
    text = 'import %s.alpha\n' % pk + dyn
    exp = SyntaxError
  elif which == 'aliased-enabling':
    text = 'from __gin__ import dynamic_registration as dr\n'
    exp = SyntaxError
  elif which == 'unknown-feature-path':
    text = random.Random(case['seed']).choice(['from __gin__.experimental import dynamic_registration\n', 'from __gin__.v2 import dynamic_registration\nimport %s.alpha\n' % pk,
                                               'from __gin__.dynamic_registration import enable\n'])
    exp = SyntaxError
  else:
    text = 'from __gin__ import time_travel\n'
    exp = SyntaxError
  ctx.fp('errors', which)
  try:
    gin.parse_config(text)
    ctx.check(False, 'bad-dynamic-config-accepted', '%s: accepted\n%s' % (which, text.replace(pk, 'PK')))
  except exp:
    ctx.count('oracle_evals')
  except Exception as e:  # pylint: disable=broad-except
    ctx.check(False, 'bad-dynamic-config-wrong-exception', '%s: expected %s, got %s: %s' % (which, exp.__name__, type(e).__name__, str(e)[:300]))
  gin.clear_config()


def run_cross_parse(ctx, case):
  """A class is referenced in one file; a method of it is configured later in another file / parse call with other imports."""
  import gin
  gin.clear_config()
  pk = _S['tree'].new_package('c19x')
  dyn = 'from __gin__ import dynamic_registration\n'
  def spell(imp):
    return {'import PK.alpha as M1': 'M1', 'from PK import alpha as M1': 'M1', 'import PK.alpha': pk + '.alpha', 'from PK import alpha': 'alpha',
            'import PK.alpha as Z9': 'Z9'}[imp]
  rs, ms = spell(case['ref_import']), spell(case['meth_import'])
  sc = 'rsc/' if case['scoped'] else ''
  ref_text = dyn + case['ref_import'].replace('PK', pk) + '\nfrom %s.sub import gamma\ngamma.fg.ref = @%s%s.K()\n%s.K.a = 5\n' % (pk, sc, rs, rs)
  meth_text = dyn + case['meth_import'].replace('PK', pk) + '\n%s.K.meth.m = 7\n' % ms
  if case['second_method']:
    meth_text += '%s.K.other.o = 8\n' % ms
  ctx.bucket('cross-parse:' + case['how'])
  ctx.fp('cross-parse', case['how'], case['ref_import'], case['meth_import'], case['scoped'], case['second_method'])
  try:
    if case['how'] == 'second-parse':
      gin.parse_config(ref_text)
      gin.parse_config(meth_text)
    elif case['how'] == 'include':
      path = os.path.join(_S['tree'].root, pk + '_m.gin')
      open(path, 'w').write(meth_text)
      gin.parse_config(ref_text + "include '%s'\n" % path)
    else:
      path = os.path.join(_S['tree'].root, pk + '_r.gin')
      open(path, 'w').write(ref_text)
      gin.parse_config("include '%s'\n" % path + meth_text)
  except Exception as e:  # pylint: disable=broad-except
    ctx.check(False, 'method-configured-in-other-file-rejected', 'configuring a method of a class referenced from another file raised %s: %s\n%s\n---\n%s' %
              (type(e).__name__, str(e)[:300], ref_text.replace(pk, 'PK'), meth_text.replace(pk, 'PK')))
    return
  inst = gin.get_configurable(resolve_obj(pk, 'sub.gamma.fg'))()[2]
  got = (inst.a, inst.meth()[1], inst.other()[1])
  want = (5, 7, 8 if case['second_method'] else 0)
  ctx.count('deliveries_compared')
  ctx.check(got == want, 'reference-from-other-file-stale-after-method-registration',
            'instance built through a reference written in another file: (a, meth m, other o) = %r, expected %r\n%s\n---\n%s' %
            (got, want, ref_text.replace(pk, 'PK'), meth_text.replace(pk, 'PK')))
  gin.clear_config()


def run_alias_collision(ctx, case):
  """Two files bind the same import name to different modules that contain equally named objects."""
  import gin
  gin.clear_config()
  pk = _S['tree'].new_package('c19a')
  dyn = 'from __gin__ import dynamic_registration\n'
  al = case['alias']
  t1 = dyn + (case['form'] % ('alpha', al)).replace('PK', pk) + '\n%s.shared.v = 1\n%s.K.a = 2\n' % (al, al)
  t2 = dyn + (case['form'] % ('beta', al)).replace('PK', pk) + '\n%s.shared.v = 10\n%s.K.a = 20\n' % (al, al)
  ctx.bucket('alias-collision:' + case['how'])
  ctx.fp('alias-collision', case['how'], al, case['form'], case.get('plain'))
  if case['how'].startswith('sibling-plain'):
    # one file calls module beta `alpha` (an alias equal to a sibling module's name), another imports the real alpha without any alias
    plain = case.get('plain', 'from PK import alpha')
    sel = 'alpha' if plain.startswith('from') else 'PK.alpha'
    t1 = dyn + plain.replace('PK', pk) + ('\n%s.shared.v = 1\n%s.K.a = 2\n' % (sel, sel)).replace('PK', pk)
    t2 = dyn + (case['form'] % ('beta', 'alpha')).replace('PK', pk) + '\nalpha.shared.v = 10\nalpha.K.a = 20\n'
    if case['how'] == 'sibling-plain-after-alias':
      t1, t2 = t2, t1
  if case['how'] == 'same-file-rebind':
    # within ONE file a later import statement re-binds the name, as in Python: selectors after it go through the later module
    t1 = (dyn + (case['form'] % ('alpha', al)).replace('PK', pk) + '\n%s.shared.v = 1\n%s.K.a = 2\n' % (al, al) +
          (case['form'] % ('beta', al)).replace('PK', pk) + '\n%s.shared.v = 10\n%s.K.a = 20\n' % (al, al))
    t2 = ''
  try:
    if case['how'] in ('second-parse', 'sibling-plain-after-alias', 'sibling-plain-before-alias', 'same-file-rebind'):
      gin.parse_config(t1)
      if t2:
        gin.parse_config(t2)
    else:
      path = os.path.join(_S['tree'].root, pk + '_c.gin')
      inner, outer = (t2, t1) if case['how'] == 'include' else (t1, t2)
      open(path, 'w').write(inner)
      gin.parse_config(outer + "include '%s'\n" % path)
  except Exception as e:  # pylint: disable=broad-except
    ctx.check(False, 'colliding-import-names-across-files-rejected', 'two files binding %r to different modules: %s: %s\n%s\n---\n%s' %
              (al, type(e).__name__, str(e)[:300], t1.replace(pk, 'PK'), t2.replace(pk, 'PK')))
    return
  def obs():
    return (gin.get_configurable(resolve_obj(pk, 'alpha.K'))().a, gin.get_configurable(resolve_obj(pk, 'beta.K'))().a,
            gin.get_configurable(importlib_get(pk, 'alpha', 'shared'))()[1], gin.get_configurable(importlib_get(pk, 'beta', 'shared'))()[1])
  ctx.count('deliveries_compared')
  got = obs()
  ctx.check(got == (2, 20, 1, 10), 'binding-through-other-spelling-lost', 'alias collision: (alpha.K.a, beta.K.a, alpha.shared.v, beta.shared.v) = %r, expected (2, 20, 1, 10)' % (got,))
  try:
    s = gin.config_str()
  except Exception as e:  # pylint: disable=broad-except
    ctx.check(False, 'config-str-raised', 'config_str() raised %s: %s' % (type(e).__name__, str(e)[:300].replace(pk, 'PK')))
    return
  gin.clear_config()
  try:
    gin.parse_config(s)
    got2 = obs()
    ctx.check(got2 == (2, 20, 1, 10) and gin.config_str() == s, 'roundtrip-delivers-other-values', 'alias collision: after re-parsing config_str(): %r\n%s' % (got2, s.replace(pk, 'PK')))
  except Exception as e:  # pylint: disable=broad-except
    ctx.check(False, 'config-str-roundtrip-failed', 'alias collision: re-parsing config_str() raised %s: %s\n%s' % (type(e).__name__, str(e)[:200], s.replace(pk, 'PK')))
  gin.clear_config()


def importlib_get(pk, mod, name):
  import importlib
  return getattr(importlib.import_module(pk + '.' + mod), name)


def run_class_shapes(ctx, case):
  """Methods the quantifier covers beyond plain ones: inherited from a base class, static, class methods."""
  import importlib
  import gin
  gin.clear_config()
  pk = _S['tree'].new_package('c19s')
  alpha = importlib.import_module(pk + '.alpha')
  dyn = 'from __gin__ import dynamic_registration\nfrom %s import alpha\n' % pk
  which = case['which']
  ctx.bucket('class-shape:' + which)
  ctx.fp('class-shape', which, case['order'])
  if which == 'inherited-method':
    stmts = ['alpha.K.meth.m = 2', 'alpha.Sub.a = 1']
    if case['order']:
      stmts.reverse()
    try:
      gin.parse_config(dyn + '\n'.join(stmts) + '\n')
      sub = gin.get_configurable(alpha.Sub)()
      k = gin.get_configurable(alpha.K)()
      got = (sub.a, sub.meth()[1], k.meth()[1])
      ctx.check(got == (1, 2, 2), 'inherited-method-of-configured-class', 'K.meth.m = 2 and Sub.a = 1 (Sub inherits meth from K): (Sub().a, Sub().meth() m, K().meth() m) = %r' % (got,))
    except Exception as e:  # pylint: disable=broad-except
      ctx.check(False, 'inherited-method-of-configured-class', 'configuring K.meth and its subclass Sub in one file (%s) raised %s: %s' % (
          ' then '.join(stmts), type(e).__name__, str(e)[:200].replace(pk, 'PK')))
  else:
    name, prm = ('st', 's') if which == 'static-method' else ('cm', 'c')
    try:
      gin.parse_config(dyn + 'alpha.S.%s.%s = 7\n' % (name, prm))
      inst = gin.get_configurable(alpha.S)()
      got = getattr(inst, name)()
      ctx.check(got[1] == 7, 'static-or-class-method-binding-not-delivered', 'alpha.S.%s.%s = 7: calling it on an instance of the configured class returned %r' % (name, prm, got))
    except Exception as e:  # pylint: disable=broad-except
      ctx.check(False, 'static-or-class-method-binding-not-delivered', 'alpha.S.%s.%s = 7 raised %s: %s' % (name, prm, type(e).__name__, str(e)[:200].replace(pk, 'PK')))
  gin.clear_config()


def run_case(ctx, case):
  if case['kind'] == 'class-shape':
    return run_class_shapes(ctx, case)
  if case['kind'] == 'alias-collision':
    return run_alias_collision(ctx, case)
  if case['kind'] == 'cross-parse':
    return run_cross_parse(ctx, case)
  if case['kind'] == 'bindings':
    run_bindings(ctx, case)
  else:
    run_errors(ctx, case)


LEVEL_TEXT = ('Runtime metamorphic monitor on a freshly generated package per case: values bound through every available import spelling must be delivered '
              'to the exact Python object (reached through gin.get_configurable(<object>)), regardless of the order of first use of classes, methods and '
              'references; config_str() must have one section per object and re-parse to the same deliveries and text in the same process and in a '
              'fresh interpreter; name/attribute/reserved-name/enabling faults must raise the stated exception classes.')
LEVEL_NOTE = 'Trusted: the spelling table in this file (which names each import form binds). One fixed package shape (11 objects) with random import subsets and orders.'
TECHNIQUE = 'runtime metamorphic monitor (spelling A vs spelling B, first parse vs config_str re-parse vs fresh interpreter) on generated packages'
DESIGN_REF = 'DESIGN.md section 4, C19'
