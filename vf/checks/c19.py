"""C19 — dynamic registration resolves names through the file's own imports."""
import json
import os
import random
import subprocess
import sys

from vf import core, pkgtree, snap

ID = 'C19'
LEVEL = 'exploration'
RULE = ('a fresh generated package per case (modules, equally named modules in a sub-package, functions, classes, nested class, methods); config texts '
        'enabling dynamic registration with random subsets of the four import forms and aliases, bindings of every object through every spelling its '
        'imports allow in random order of first use (class before/after its methods, method through another spelling than its class, references to a '
        'class created before its method is configured), included files with their own (colliding) imports. Oracles: the object reached through '
        'gin.get_configurable(<python object>) receives exactly the last value bound through any spelling; one config_str section per object; '
        'references created earlier see class and method bindings; names only imported by an includer/includee -> NameError, attribute misses -> '
        'AttributeError, bound name gin -> ValueError, late/aliased enabling and unknown __gin__ feature -> SyntaxError; config_str() re-parsed in the '
        'same process and in a fresh interpreter delivers the same values and reproduces the text. Bindings also in block form; references inside '
        'containers, unevaluated, to a nested class, held by a macro or by a scoped binding; every object of the package is probed (unbound ones must '
        'receive nothing; instances/return tags identify the exact object); operative_config_str() re-parsed. File trees (kind ftree): 1-3 top-level '
        'parse calls (parse_config / parse_config_file / parse_config_files_and_bindings) over files with nested, double and diamond includes, each '
        'with its own colliding imports (aliases, plain three-component imports, `from PK import sub`, re-exported objects, a decorator-registered '
        'class with a method), binding functions, classes, methods and nested members; negatives: a name bound only by an earlier top-level call, a '
        'grandparent, a grandchild, a sibling include, in binding / block / reference / macro position -> NameError and nothing delivered. '
        'Cross-parse: the statement that first configures a method holds a reference to the method\'s own class; alias collisions: an alias equal to the package name next to a plain import of that package. '
        'distinct = (import forms, spelling sequence, order class)')
TIERS = {
    'quick': {'workers': 8, 'cases': 160, 'timeout': 900, 'fresh_process_every': 12},
    'thorough': {'workers': 16, 'cases': 3000, 'timeout': 3400, 'fresh_process_every': 25},
}
REQUIRED_BUCKETS = ['import:plain', 'import:as', 'import:from', 'import:from-as', 'obj:function', 'obj:class', 'obj:nested-class', 'obj:method', 'obj:nested-method',
                    'spelling:two-for-one-object', 'order:class-then-method', 'order:method-then-class', 'order:method-via-other-spelling-than-class',
                    'ref:created-before-method-configured', 'ref:scoped', 'obj:registered-by-decorator-under-custom-name', 'obj:decorated-variant-of-another-object', 'include:own-imports', 'include:colliding-bound-name', 'error:name-from-includer', 'error:name-from-includee',
                    'error:attribute', 'error:gin-reserved', 'error:late-enabling', 'error:aliased-enabling', 'error:unknown-feature', 'error:unknown-feature-path', 'roundtrip:same-process',
                    'roundtrip:fresh-process', 'equally-named-modules', 'cross-parse:second-parse', 'cross-parse:include', 'cross-parse:includer', 'alias-collision:second-parse', 'alias-collision:include', 'alias-collision:sibling-plain-after-alias', 'alias-collision:sibling-plain-before-alias', 'alias-collision:same-file-rebind', 'alias-collision:alias-is-package-name', 'alias-collision:alias-is-package-name-plain-first', 'cross-parse:same-statement',
                    'alias-collision:includer',
                    'form:block', 'form:block-first-use', 'ref:in-container', 'ref:unevaluated', 'ref:to-nested-class', 'ref:held-by-macro', 'ref:in-scoped-binding',
                    'ref:container-created-before-method-configured', 'probe:unbound-object-registered', 'probe:unbound-object-unregistered', 'roundtrip:operative',
                    'import:plain-three-components', 'import:two-plain-imports-of-one-package', 'error:gin-reserved:plain-import', 'error:gin-reserved:dotted-import',
                    'error:gin-reserved:from-import', 'cross-parse:roundtrip', 'cross-parse:entry-file',
                    'ftree:shape:chain3', 'ftree:shape:two-includes', 'ftree:shape:diamond', 'ftree:shape:sequence', 'ftree:shape:sequence-with-include',
                    'ftree:entry:parse_config', 'ftree:entry:parse_config_file', 'ftree:entry:parse_config_files_and_bindings',
                    'ftree:colliding-bound-name-across-files', 'ftree:colliding-name-three-files', 'ftree:class-member-through-colliding-name', 'ftree:spelling:package-then-submodule',
                    'ftree:spelling:plain-three-components', 'ftree:spelling:re-exported-object', 'ftree:obj:decorator-registered-class-method', 'ftree:form:block',
                    'ftree:roundtrip:config_str', 'ftree:roundtrip:operative', 'ftree:roundtrip:fresh-process', 'ftree:method-before-class-under-colliding-name',
                    'ftree:registered-before-clear_config',
                    'isolation:earlier-parse', 'isolation:parent', 'isolation:grandparent', 'isolation:child', 'isolation:grandchild', 'isolation:sibling-include',
                    'isolation:position:binding', 'isolation:position:block', 'isolation:position:reference', 'isolation:position:reference-in-container',
                    'isolation:position:macro-value', 'isolation:nothing-delivered']
ORACLE_COUNTERS = ['oracle_evals', 'deliveries_compared', 'roundtrips']
_S = {}

# objects: key -> (module path under PK, attribute chain, parameters, kind)
OBJECTS = {
    'alpha.fa': ('alpha', ['fa'], ['x', 'y'], 'function'),
    'alpha.K': ('alpha', ['K'], ['a', 'b'], 'class'),
    'alpha.K.meth': ('alpha', ['K', 'meth'], ['m'], 'method'),
    'alpha.K.other': ('alpha', ['K', 'other'], ['o'], 'method'),
    'alpha.K.Inner': ('alpha', ['K', 'Inner'], ['i'], 'nested-class'),
    'alpha.K.Inner.deep': ('alpha', ['K', 'Inner', 'deep'], ['d'], 'nested-method'),
    'alpha.fa_traced': ('alpha', ['fa_traced'], ['x', 'y'], 'function'),     # functools.wraps-decorated variant of alpha.fa: its own configurable
    'alpha.decorated': ('alpha', ['decorated'], ['z'], 'function'),          # registered by its module's decorator under a custom name
    'alpha.Outer.Nested': ('alpha', ['Outer', 'Nested'], ['n'], 'nested-class'),  # likewise, and nested in another class
    'beta.fb': ('beta', ['fb'], ['x'], 'function'),
    'beta.K': ('beta', ['K'], ['a'], 'class'),
    'sub.alpha.fa': ('sub.alpha', ['fa'], ['x'], 'function'),
    'sub.alpha.Deep': ('sub.alpha', ['Deep'], ['q'], 'class'),
    'sub.gamma.fg': ('sub.gamma', ['fg'], ['x'], 'function'),
}
# import forms: text template, (bound name, module path under PK ('' = the package itself))
IMPORTS = {
    'import PK.alpha': ('plain', 'PK', ''),
    'import PK.alpha as A1': ('as', 'A1', 'alpha'),
    'from PK import alpha': ('from', 'alpha', 'alpha'),
    'from PK import alpha as A3': ('from-as', 'A3', 'alpha'),
    'from PK import beta as B': ('from-as', 'B', 'beta'),
    'import PK.beta': ('plain', 'PK', ''),
    'import PK.sub.alpha as SA': ('as', 'SA', 'sub.alpha'),
    'from PK.sub import gamma': ('from', 'gamma', 'sub.gamma'),
    'from PK.sub import alpha as alpha2': ('from-as', 'alpha2', 'sub.alpha'),
    'import PK.sub.alpha': ('plain', 'PK', ''),          # three components: the selector is PK.sub.alpha.<object>
    'import PK.sub.gamma': ('plain', 'PK', ''),
}
# how a reference to a class is written / held (gap: only a bare top-level `@K()` used to be generated)
REF_WRAPS = {'plain': '%s', 'uneval': '%s', 'list': '[%s]', 'dict': "{'k': %s}", 'tuple': '(%s, 1)', 'nested': "{'k': [1, (%s,)]}"}
REF_TARGETS = {'alpha.K': ('alpha.K.meth', 'm'), 'alpha.K.Inner': ('alpha.K.Inner.deep', 'd')}


def _cfg(gin, o):
  """The configurable version of python object `o`; `o` itself when gin never registered it (then nothing can have been bound to it)."""
  try:
    return gin.get_configurable(o)
  except Exception:  # pylint: disable=broad-except
    return o


def obj_tag(obj):
  mod, chain, _, _ = OBJECTS[obj]
  return 'PK.%s.%s' % (mod, '.'.join(chain))


def ref_key(opts):
  return 'REF|%s|%s' % (opts.get('wrap', 'plain'), opts.get('target', 'alpha.K'))


def unwrap_ref(v, wrap):
  """The instance built through the reference held in (container) value `v`."""
  if wrap == 'list' or wrap == 'tuple':
    return v[0]
  if wrap == 'dict':
    return v['k']
  if wrap == 'nested':
    return v['k'][1][0]
  if wrap == 'uneval':
    return v()       # the configurable class itself was injected
  return v


def setup(ctx):
  _S['tree'] = pkgtree.Tree()


def finish(ctx):
  _S['tree'].cleanup()


def spellings(obj, imports):
  """All spellings of `obj` available through the chosen import statements."""
  mod, chain, _, _ = OBJECTS[obj]
  out = []
  for imp in imports:
    form, bound, path = IMPORTS[imp]
    if path == '':
      # `import PK.x` binds PK; only the imported submodule is guaranteed to be an attribute
      imported = imp.split()[1][len('PK.'):]
      if mod == imported:
        out.append('.'.join(['PK'] + mod.split('.') + chain))
    elif path == mod:
      out.append('.'.join([bound] + chain))
  return out


def iter_cases(ctx, rng, n):
  main_no = 0
  ft_no = rng.randrange(72)
  # rare alternatives are taken in turn (from a random start) rather than drawn: every run must reach each of them
  ac_no, err_no, gr_no = rng.randrange(8), rng.randrange(9), rng.randrange(7)
  for i in range(n):
    if i % 40 == 9:
      yield {'kind': 'class-shape', 'which': rng.choice(['inherited-method', 'static-method', 'class-method']), 'order': rng.random() < 0.5}
      continue
    if i % 9 == 5:
      ft_no += 1
      yield gen_ftree(rng, negative=ft_no % 2 == 0, fresh=ft_no % 20 == 1, turn=ft_no // 2)
      continue
    if i % 7 == 3:
      if rng.random() < 0.35:
        ac_no += 1
        yield {'kind': 'alias-collision', 'how': ['second-parse', 'include', 'includer', 'sibling-plain-after-alias', 'sibling-plain-before-alias', 'same-file-rebind', 'alias-is-package-name',
                                                'alias-is-package-name-plain-first'][ac_no % 8],
               'alias': rng.choice(['X', 'alpha', 'mod']), 'plain': rng.choice(['from PK import alpha', 'import PK.alpha']),
               'form': rng.choice(['import PK.%s as %s', 'from PK import %s as %s'])}
        continue
      yield {'kind': 'cross-parse', 'how': rng.choice(['second-parse', 'include', 'includer', 'same-statement']), 'ref_import': rng.choice(['import PK.alpha as M1', 'from PK import alpha as M1', 'import PK.alpha']),
             'meth_import': rng.choice(['from PK import alpha', 'import PK.alpha as Z9', 'import PK.alpha']), 'scoped': rng.random() < 0.5,
             'second_method': rng.random() < 0.5, 'entry': rng.choice(['text', 'file']), 'wrap': rng.choice(['plain', 'plain', 'list', 'uneval'])}
      continue
    if i % 5 == 4:
      err_no += 1
      which = ['name-from-includer', 'gin-reserved', 'name-from-includee', 'attribute', 'late-enabling', 'gin-reserved', 'aliased-enabling', 'unknown-feature',
               'unknown-feature-path'][err_no % 9]
      gr_no += which == 'gin-reserved'
      yield {'kind': 'errors', 'which': which, 'seed': rng.randrange(1 << 30), 'form': gr_no}
      continue
    imports = rng.sample(sorted(IMPORTS), rng.choice([2, 3, 4, 5]))
    # two statements binding the same name in one file: the later wins (as in Python); keep the generator simple: distinct bound names except PK
    seen, keep = set(), []
    for imp in imports:
      b = IMPORTS[imp][1]
      if b in seen and b != 'PK':
        continue
      seen.add(b)
      keep.append(imp)
    imports = keep
    stmts = []
    avail = {o: spellings(o, imports) for o in OBJECTS}
    objs = [o for o in OBJECTS if avail[o]]
    for _ in range(rng.choice([2, 3, 5, 8])):
      if not objs:
        break
      o = rng.choice(objs)
      st = ['bind', o, rng.choice(avail[o]), rng.choice(OBJECTS[o][2]), rng.randrange(1000), rng.choice(['', '', 'sc'])]
      if rng.random() < 0.25:
        # block form `selector:` + indented members (a separate statement kind with its own resolution path)
        others = [p for p in OBJECTS[o][2] if p != st[3]]
        st += ['block', [rng.choice(others), rng.randrange(1000)] if others and rng.random() < 0.5 else None]
      stmts.append(st)
    if avail['sub.gamma.fg'] and avail['alpha.K'] and rng.random() < 0.55:
      target = rng.choice(['alpha.K', 'alpha.K', 'alpha.K.Inner'])
      opts = {'target': target, 'wrap': rng.choice(sorted(REF_WRAPS)), 'macro': rng.random() < 0.25, 'bsc': ''}
      rsc = rng.choice(['', 'rsc', 'rsc'])
      if rng.random() < 0.25:
        opts['bsc'], rsc = 'bsc', ''      # the reference is the value of a scoped binding (scopes apply by prefix: not combined with a scoped reference)
      meth, mprm = REF_TARGETS[target]
      if rng.random() < 0.6:
        # make "the method is configured after the reference exists" frequent
        stmts.append(['bind', meth, rng.choice(avail[meth]), mprm, rng.randrange(1000), ''])
        pos = rng.randrange(len(stmts))
      else:
        pos = rng.randrange(len(stmts) + 1)
      stmts.insert(pos, ['ref', 'sub.gamma.fg', rng.choice(avail['sub.gamma.fg']), 'ref', rng.choice(avail[target]), rsc, opts])
      if rsc:
        stmts.insert(rng.randrange(len(stmts) + 1), ['bind', target, rng.choice(avail[target]), OBJECTS[target][2][-1], rng.randrange(1000), 'rsc'])
    include = None
    if rng.random() < 0.4:
      inc_imports = rng.sample(['from PK.sub import alpha', 'import PK.sub.alpha as A1', 'from PK import beta as B', 'from PK.sub import gamma as alpha2'], rng.choice([1, 2]))
      include = {'imports': inc_imports, 'pos': rng.randrange(len(stmts) + 1)}
    main_no += 1
    # decided here (not from the case number, whose residues are tied to the case kinds): which cases also go through a fresh interpreter
    yield {'kind': 'bindings', 'imports': imports, 'stmts': stmts, 'include': include, 'seed': rng.randrange(1 << 30), 'operative': main_no % 3 == 0,
           'fresh': main_no % ctx.params.get('fresh_process_every', 1 << 30) == 0}


INC_MAP = {'from PK.sub import alpha': ('alpha', 'sub.alpha.fa', 'alpha.fa', 'x'), 'import PK.sub.alpha as A1': ('A1', 'sub.alpha.fa', 'A1.fa', 'x'),
           'from PK import beta as B': ('B', 'beta.fb', 'B.fb', 'x'), 'from PK.sub import gamma as alpha2': ('alpha2', 'sub.gamma.fg', 'alpha2.fg', 'x')}


def resolve_obj(pk, obj):
  import importlib
  mod, chain, _, _ = OBJECTS[obj]
  o = importlib.import_module(pk + '.' + mod)
  for c in chain:
    o = getattr(o, c)
  return o


def deliver(gin, pk, expected_keys):
  """Call every object of interest through gin.get_configurable(<python object>) and report what it received.

  Besides the parameter values, every entry carries '_obj': 'ok' when what answered is the exact object (return tag of the function / method,
  instance of the original class), a description otherwise. Objects gin never registered are called directly (nothing can be bound to them)."""
  out = {}
  for (scope, obj) in expected_keys:
    if obj.startswith('REF'):
      parts = obj.split('|')
      wrap = parts[1] if len(parts) > 1 else 'plain'
      target = parts[2] if len(parts) > 2 else 'alpha.K'
      with gin.config_scope(scope or None):
        inst = unwrap_ref(_cfg(gin, resolve_obj(pk, 'sub.gamma.fg'))()[2], wrap)
        cls = resolve_obj(pk, target)
        if target == 'alpha.K':
          r = inst.meth()
          out[(scope, obj)] = {'a': inst.a, 'b': inst.b, 'm': r[1], '_obj': 'ok' if isinstance(inst, cls) and r[0] == pk + '.alpha.K.meth' else repr((type(inst), r[0])).replace(pk, 'PK')}
        else:
          r = inst.deep()
          out[(scope, obj)] = {'i': inst.i, 'd': r[1], '_obj': 'ok' if isinstance(inst, cls) and r[0] == pk + '.alpha.K.Inner.deep' else repr((type(inst), r[0])).replace(pk, 'PK')}
      continue
    mod, chain, params, kind = OBJECTS[obj]
    tag = obj_tag(obj).replace('PK', pk)
    with gin.config_scope(scope or None):
      if kind == 'function':
        r = _cfg(gin, resolve_obj(pk, obj))()
        if obj == 'alpha.fa_traced':
          out[(scope, obj)] = dict(zip(params, r[2:])) if r[0] == 'traced' else {'NOT-THE-DECORATED-VARIANT': r}
          rtag, tag = r[1], pk + '.alpha.fa'
        else:
          out[(scope, obj)] = dict(zip(params, r[1:])) if r[0] != 'traced' else {'NOT-THE-BASE-FUNCTION': r}
          rtag = r[0]
        out[(scope, obj)]['_obj'] = 'ok' if rtag == tag else repr(rtag).replace(pk, 'PK')
      elif kind in ('class', 'nested-class'):
        cls = resolve_obj(pk, obj)
        inst = _cfg(gin, cls)()
        out[(scope, obj)] = {p: getattr(inst, p) for p in params}
        out[(scope, obj)]['_obj'] = 'ok' if isinstance(inst, cls) else repr(type(inst)).replace(pk, 'PK')
      else:
        cls_obj = '.'.join(obj.split('.')[:-1])
        cls = resolve_obj(pk, cls_obj)
        inst = _cfg(gin, cls)()
        r = getattr(inst, chain[-1])()
        out[(scope, obj)] = {params[0]: r[1], '_obj': 'ok' if isinstance(inst, cls) and r[0] == tag else repr((type(inst), r[0])).replace(pk, 'PK')}
  return out


DELIVER_SNIPPET = r'''
import sys, json
sys.path.insert(0, %(repo)r); sys.path.insert(0, %(verif)r); sys.path.insert(0, %(root)r)
import gin
from vf.checks import c19
gin.parse_config(open(%(cfg)r).read())
keys = [tuple(k) for k in json.load(open(%(keys)r))]
out = c19.deliver(gin, %(pk)r, keys)
print('@@' + json.dumps({'deliver': [[list(k), v] for k, v in out.items()], 'config_str': gin.config_str()}))
'''


def run_bindings(ctx, case):
  import gin
  from gin import config as gc
  gin.clear_config()
  pk = _S['tree'].new_package('c19')
  imports = case['imports']
  for imp in imports:
    ctx.bucket('import:' + IMPORTS[imp][0])
    if IMPORTS[imp][0] == 'plain' and imp.count('.') == 2:
      ctx.bucket('import:plain-three-components')
  if sum(1 for imp in imports if IMPORTS[imp][0] == 'plain') > 1:
    ctx.bucket('import:two-plain-imports-of-one-package')
  lines = ['from __gin__ import dynamic_registration'] + [i.replace('PK', pk) for i in imports]
  model = {}
  first_use = {}
  spell_used = {}
  stmts = list(case['stmts'])
  inc_path = None
  body = []
  ref_created_at = None
  ref_scope = ''
  ref_opts = {}
  for idx, st in enumerate(stmts):
    if case['include'] and case['include']['pos'] == idx:
      body.append('INCLUDE')
    if st[0] == 'bind':
      _, obj, sp, prm, val, scope = st[:6]
      sel = '%s%s' % (scope + '/' if scope else '', sp.replace('PK', pk))
      if len(st) > 6 and st[6] == 'block':
        ctx.bucket('form:block')
        if obj not in first_use and not any(o.startswith(obj + '.') for o in first_use):
          ctx.bucket('form:block-first-use')
        body.append('%s:\n  %s = %d' % (sel, prm, val))
        if st[7]:
          body[-1] += '\n  %s = %d' % (st[7][0], st[7][1])
          model.setdefault((scope, obj), {})[st[7][0]] = st[7][1]
      else:
        body.append('%s.%s = %d' % (sel, prm, val))
      model.setdefault((scope, obj), {})[prm] = val
      first_use.setdefault(obj, idx)
      spell_used.setdefault(obj, set()).add(sp)
      ctx.bucket('obj:' + OBJECTS[obj][3])
      if obj in ('alpha.decorated', 'alpha.Outer.Nested'):
        ctx.bucket('obj:registered-by-decorator-under-custom-name')
      if obj == 'alpha.fa_traced':
        ctx.bucket('obj:decorated-variant-of-another-object')
    else:
      _, obj, sp, prm, refsp, rsc = st[:6]
      ref_opts = dict(st[6]) if len(st) > 6 else {}
      wrap, target, bsc = ref_opts.get('wrap', 'plain'), ref_opts.get('target', 'alpha.K'), ref_opts.get('bsc', '')
      value = REF_WRAPS[wrap] % ('@%s%s%s' % (rsc + '/' if rsc else '', refsp.replace('PK', pk), '' if wrap == 'uneval' else '()'))
      if ref_opts.get('macro'):
        body.append('REFM = %s' % value)
        value = '%REFM'
        ctx.bucket('ref:held-by-macro')
      body.append('%s%s.%s = %s' % (bsc + '/' if bsc else '', sp.replace('PK', pk), prm, value))
      ref_created_at = idx
      ref_scope = rsc
      if rsc:
        ctx.bucket('ref:scoped')
      if wrap in ('list', 'dict', 'tuple', 'nested'):
        ctx.bucket('ref:in-container')
      if wrap == 'uneval':
        ctx.bucket('ref:unevaluated')
      if target == 'alpha.K.Inner':
        ctx.bucket('ref:to-nested-class')
      if bsc:
        ctx.bucket('ref:in-scoped-binding')
      spell_used.setdefault(target, set()).add(refsp)
      first_use.setdefault(target, idx)
  if case['include'] and case['include']['pos'] >= len(stmts):
    body.append('INCLUDE')
  if any(len(v) > 1 for v in spell_used.values()):
    ctx.bucket('spelling:two-for-one-object')
  # order buckets
  for meth, cls in (('alpha.K.meth', 'alpha.K'), ('alpha.K.other', 'alpha.K'), ('alpha.K.Inner.deep', 'alpha.K.Inner')):
    if meth in first_use and cls in first_use:
      ctx.bucket('order:class-then-method' if first_use[cls] < first_use[meth] else 'order:method-then-class')
      cls_roots = {s.split('.')[0] for s in spell_used[cls]}
      meth_roots = {s.split('.')[0] for s in spell_used[meth]}
      if cls_roots != meth_roots:
        ctx.bucket('order:method-via-other-spelling-than-class')
  ref_target = ref_opts.get('target', 'alpha.K')
  ref_meths = ('alpha.K.meth', 'alpha.K.other') if ref_target == 'alpha.K' else ('alpha.K.Inner.deep',)
  meth_after_ref = ref_created_at is not None and any(st[0] == 'bind' and st[1] in ref_meths and i > ref_created_at for i, st in enumerate(stmts))
  if meth_after_ref:
    ctx.bucket('ref:created-before-method-configured')
    if ref_opts.get('wrap', 'plain') in ('list', 'dict', 'tuple', 'nested'):
      ctx.bucket('ref:container-created-before-method-configured')
  if any(IMPORTS[i][2] == 'sub.alpha' for i in imports) and any(IMPORTS[i][2] == 'alpha' or (IMPORTS[i][2] == '' and 'alpha' in i) for i in imports):
    ctx.bucket('equally-named-modules')
  # included file with its own imports (possibly binding the same names to other modules)
  if case['include']:
    ctx.bucket('include:own-imports')
    inc_lines = ['from __gin__ import dynamic_registration'] + [i.replace('PK', pk) for i in case['include']['imports']]
    main_bound = {IMPORTS[i][1] for i in imports}
    for i in case['include']['imports']:
      bound, obj, sp, prm = INC_MAP[i]
      if bound in main_bound:
        ctx.bucket('include:colliding-bound-name')
      val = 5000 + len(inc_lines)
      inc_lines.append('inc/%s.%s = %d' % (sp, prm, val))
      model.setdefault(('inc', obj), {})[prm] = val
    inc_path = os.path.join(_S['tree'].root, pk + '_inc.gin')
    open(inc_path, 'w').write('\n'.join(inc_lines) + '\n')
    body = [("include '%s'" % inc_path) if b == 'INCLUDE' else b for b in body]
  text = '\n'.join(lines + body) + '\n'
  def st_fp(st):
    extra = ()
    if len(st) > 6:
      extra = (st[6],) if st[0] == 'bind' else (st[6].get('wrap'), st[6].get('target'), bool(st[6].get('macro')), st[6].get('bsc'))
    return (st[0], st[1], st[2].split('.')[0]) + extra
  ctx.fp(tuple(sorted(IMPORTS[i][0] for i in imports)), tuple(st_fp(st) for st in stmts), bool(case['include']))
  ctx.sample({'text': text.replace(pk, 'PK')}, cap=3)
  try:
    gin.parse_config(text)
  except Exception as e:  # pylint: disable=broad-except
    ctx.check(False, 'valid-dynamic-config-rejected', 'parse raised %s: %s\n%s' % (type(e).__name__, str(e)[:300], text))
    return
  # every object of the package is observed in the root scope (objects nothing was bound to must receive nothing), bound ones in their scopes too
  keys = sorted(set(model) | {('', o) for o in OBJECTS})
  for o in OBJECTS:
    if not any(k[1] == o for k in model):
      ctx.bucket('probe:unbound-object-registered' if _cfg(gin, resolve_obj(pk, o)) is not resolve_obj(pk, o) else 'probe:unbound-object-unregistered')
  # objects reached through the python object receive exactly what was bound through any spelling
  expect = {}
  rkey = None
  if ref_created_at is not None:
    # the instance built through the (possibly scoped) reference: class bindings of that scope + method bindings
    rkey = (ref_opts.get('bsc', ''), ref_key(ref_opts))
    meth, mprm = REF_TARGETS[ref_target]
    root = model.get(('', ref_target), {})
    scoped = model.get((ref_scope, ref_target), {}) if ref_scope else {}
    km = model.get(('', meth), {})
    expect[rkey] = {p: scoped.get(p, root.get(p, 0)) for p in OBJECTS[ref_target][2]}
    expect[rkey][mprm] = km.get(mprm, 0)
    expect[rkey]['_obj'] = 'ok'
  for (scope, obj) in keys:
    params = OBJECTS[obj][2]
    vals = {}
    for p in params:
      v = model.get(('', obj), {}).get(p, 0)
      if scope:
        v = model[(scope, obj)].get(p, v)
      vals[p] = v
    if OBJECTS[obj][3] in ('method', 'nested-method'):
      vals = {params[0]: vals[params[0]]}
    vals['_obj'] = 'ok'
    expect[(scope, obj)] = vals
  if ref_created_at is not None:
    keys = keys + [rkey]
  try:
    got = deliver(gin, pk, keys)
  except Exception as e:  # pylint: disable=broad-except
    ctx.check(False, 'delivery-failed', 'calling the configured objects raised %s: %s\n%s' % (type(e).__name__, str(e)[:300], text))
    return
  ctx.count('deliveries_compared')
  if got != expect:
    d = {k: (got.get(k), expect.get(k)) for k in expect if got.get(k) != expect.get(k)}
    key = 'binding-through-other-spelling-lost'
    if any(k[1] in OBJECTS and OBJECTS[k[1]][3] in ('class', 'nested-class') for k in d) and any(o in first_use for o in ('alpha.K.meth', 'alpha.K.other', 'alpha.K.Inner.deep')):
      key = 'class-binding-orphaned-by-method-registration'
    elif set(d) == {rkey} and meth_after_ref:
      key = 'reference-lost-bindings-after-method-registration'
    elif all((k[0], k[1]) not in model and k != rkey for k in d):
      key = 'object-never-bound-received-a-value'
    elif all({p: v for p, v in (got.get(k) or {}).items() if p != '_obj'} == {p: v for p, v in expect[k].items() if p != '_obj'} for k in d):
      key = 'configured-object-is-not-the-exact-object'
    ctx.check(False, key, 'delivered (got, expected) %r\n%s' % (d, text.replace(pk, 'PK')))
  else:
    ctx.count('oracle_evals')
  # one section per (scope, object)
  try:
    s = gin.config_str()
  except Exception as e:  # pylint: disable=broad-except
    ctx.check(False, 'config-str-raised', 'config_str() raised %s: %s' % (type(e).__name__, str(e)[:300].replace(pk, 'PK')))
    return
  nsec = sum(1 for l in s.splitlines() if l.startswith('# Parameters for '))
  objs_bound = len({(sc, o) for (sc, o) in model} | ({(ref_opts.get('bsc', ''), 'sub.gamma.fg')} if ref_created_at is not None else set()))
  ctx.check(nsec == objs_bound, 'sections-per-object', 'config_str has %d sections for %d configured (scope, object) pairs:\n%s' % (nsec, objs_bound, s.replace(pk, 'PK')))
  # the operative config string (everything above was called: every bound object is in it, plus the registered unbound ones)
  op = None
  if case.get('operative'):
    try:
      op = gin.operative_config_str()
    except Exception as e:  # pylint: disable=broad-except
      ctx.check(False, 'config-str-raised', 'operative_config_str() raised %s: %s' % (type(e).__name__, str(e)[:300].replace(pk, 'PK')))
      return
  # ---- round trip in the same process
  gin.clear_config()
  try:
    gin.parse_config(s)
    got2 = deliver(gin, pk, keys)
    s2 = gin.config_str()
  except Exception as e:  # pylint: disable=broad-except
    ctx.check(False, 'config-str-roundtrip-failed', 're-parsing config_str() raised %s: %s\n%s' % (type(e).__name__, str(e)[:300], s.replace(pk, 'PK')))
    return
  ctx.count('roundtrips')
  ctx.bucket('roundtrip:same-process')
  ctx.check(got2 == expect, 'roundtrip-delivers-other-values', 'after re-parsing config_str(): %r expected %r\n%s' % (got2, expect, s.replace(pk, 'PK')))
  ctx.check(s2 == s, 'roundtrip-text-differs', 'config_str not idempotent:\n%s\n---\n%s' % (s.replace(pk, 'PK'), s2.replace(pk, 'PK')))
  if op is not None:
    gin.clear_config()
    try:
      gin.parse_config(op)
      got_op = deliver(gin, pk, keys)
    except Exception as e:  # pylint: disable=broad-except
      ctx.check(False, 'operative-config-str-roundtrip-failed', 're-parsing operative_config_str() raised %s: %s\n%s' % (type(e).__name__, str(e)[:300], op.replace(pk, 'PK')))
      return
    ctx.bucket('roundtrip:operative')
    ctx.check(got_op == expect, 'operative-roundtrip-delivers-other-values', 'after re-parsing operative_config_str(): (got, expected) %r\n%s' % (
        {k: (got_op.get(k), expect[k]) for k in expect if got_op.get(k) != expect[k]}, op.replace(pk, 'PK')))
  # ---- and in a fresh interpreter
  if case.get('fresh'):
    cfg = os.path.join(_S['tree'].root, pk + '_rt.gin')
    kf = os.path.join(_S['tree'].root, pk + '_keys.json')
    open(cfg, 'w').write(s)
    json.dump([list(k) for k in keys], open(kf, 'w'))
    code = DELIVER_SNIPPET % {'repo': core.repo_root(), 'verif': core.VERIF, 'root': _S['tree'].root, 'cfg': cfg, 'keys': kf, 'pk': pk}
    try:
      r = subprocess.run([core.PY, '-c', code], capture_output=True, text=True, timeout=120, env=dict(os.environ, PYTHONHASHSEED='0'))
    except subprocess.TimeoutExpired:
      raise core.Inconclusive('fresh interpreter timed out')
    line = [l for l in r.stdout.splitlines() if l.startswith('@@')]
    if not ctx.check(bool(line), 'fresh-process-roundtrip-failed', 'fresh interpreter failed: %s\n%s' % (r.stderr[-600:], s.replace(pk, 'PK'))):
      return
    res = json.loads(line[0][2:])
    got3 = {tuple(k): v for k, v in res['deliver']}
    ctx.bucket('roundtrip:fresh-process')
    ctx.check(got3 == expect, 'fresh-process-delivers-other-values', 'fresh interpreter: %r expected %r' % (got3, expect))
    # registration names (hence section order and which alias a selector is printed with) derive from the spelling of first use, which a
    # fresh interpreter reading the re-aliased text does not share; the statement demands that every emitted selector resolves to the
    # same object (the deliveries above), not textual identity across interpreters
    ctx.count('fresh_process_texts_identical' if res['config_str'] == s else 'fresh_process_texts_differ_in_spelling_or_order')
  gin.clear_config()


def run_errors(ctx, case):
  import gin
  from gin import config as gc
  gin.clear_config()
  pk = _S['tree'].new_package('c19e')
  which = case['which']
  ctx.bucket('error:' + {'attribute': 'attribute', 'gin-reserved': 'gin-reserved'}.get(which, which))
  dyn = 'from __gin__ import dynamic_registration\n'
  inc_path = os.path.join(_S['tree'].root, pk + '_e.gin')
  exp = None
  if which == 'name-from-includer':
    open(inc_path, 'w').write(dyn + '%s.alpha.fa.x = 1\n' % pk)      # uses a name only the includer imported
    text = dyn + 'import %s.alpha\n%s.alpha.fa.y = 2\ninclude %r\n' % (pk, pk, inc_path)
    exp = NameError
  elif which == 'name-from-includee':
    open(inc_path, 'w').write(dyn + 'from %s import beta as B\nB.fb.x = 1\n' % pk)
    text = dyn + 'import %s.alpha\ninclude %r\nB.fb.x = 2\n' % (pk, inc_path)
    exp = NameError
  elif which == 'attribute':
    text = dyn + 'import %s.alpha\n%s.alpha.K.nometh.m = 1\n' % (pk, pk)
    exp = AttributeError
  elif which == 'gin-reserved':
    # the name is reserved however an import comes to bind it: through an alias, or because the module itself is called gin
    forms = [('alias', 'from %s import alpha as gin\n'), ('alias', 'import %s.beta as gin\n'), ('plain-import', 'import gin\n'), ('dotted-import', 'import gin.config\n'),
             ('from-import', 'from %s import gin\n'), ('plain-import', 'import %s.alpha\nimport gin\n'), ('from-import', 'from %s import gin\nimport %s.alpha\n')]
    how, tmpl = forms[case['form'] % len(forms)] if 'form' in case else random.Random(case['seed']).choice(forms)
    if how == 'from-import':
      extend_package(pk)       # adds a module PK.gin
    ctx.bucket('error:gin-reserved:' + how)
    text = dyn + tmpl.replace('%s', pk)
    exp = ValueError
  elif which == 'late-enabling':
    text = 'import %s.alpha\n' % pk + dyn
    exp = SyntaxError
  elif which == 'aliased-enabling':
    text = 'from __gin__ import dynamic_registration as dr\n'
    exp = SyntaxError
  elif which == 'unknown-feature-path':
    text = random.Random(case['seed']).choice(['from __gin__.experimental import dynamic_registration\n', 'from __gin__.v2 import dynamic_registration\nimport %s.alpha\n' % pk,
                                               'from __gin__.dynamic_registration import enable\n'])
    exp = SyntaxError
  else:
    text = 'from __gin__ import time_travel\n'
    exp = SyntaxError
  ctx.fp('errors', which)
  try:
    gin.parse_config(text)
    ctx.check(False, 'bad-dynamic-config-accepted', '%s: accepted\n%s' % (which, text.replace(pk, 'PK')))
  except exp:
    ctx.count('oracle_evals')
  except Exception as e:  # pylint: disable=broad-except
    ctx.check(False, 'bad-dynamic-config-wrong-exception', '%s: expected %s, got %s: %s' % (which, exp.__name__, type(e).__name__, str(e)[:300]))
  gin.clear_config()


def run_cross_parse(ctx, case):
  """A class is referenced in one file; a method of it is configured later in another file / parse call with other imports."""
  import gin
  gin.clear_config()
  pk = _S['tree'].new_package('c19x')
  dyn = 'from __gin__ import dynamic_registration\n'
  def spell(imp):
    return {'import PK.alpha as M1': 'M1', 'from PK import alpha as M1': 'M1', 'import PK.alpha': pk + '.alpha', 'from PK import alpha': 'alpha',
            'import PK.alpha as Z9': 'Z9'}[imp]
  rs, ms = spell(case['ref_import']), spell(case['meth_import'])
  sc = 'rsc/' if case['scoped'] else ''
  wrap = case.get('wrap', 'plain')
  ref_text = dyn + case['ref_import'].replace('PK', pk) + '\nfrom %s.sub import gamma\ngamma.fg.ref = %s\n%s.K.a = 5\n' % (
      pk, REF_WRAPS[wrap] % ('@%s%s.K%s' % (sc, rs, '' if wrap == 'uneval' else '()')), rs)
  meth_text = dyn + case['meth_import'].replace('PK', pk) + '\n%s.K.meth.m = 7\n' % ms
  if case['second_method']:
    meth_text += '%s.K.other.o = 8\n' % ms
  ctx.bucket('cross-parse:' + case['how'])
  ctx.fp('cross-parse', case['how'], case['ref_import'], case['meth_import'], case['scoped'], case['second_method'], case.get('entry'), case.get('wrap'))
  def parse(text, tag):
    if case.get('entry') == 'file':
      ctx.bucket('cross-parse:entry-file')
      top = os.path.join(_S['tree'].root, pk + '_top%s.gin' % tag)
      open(top, 'w').write(text)
      gin.parse_config_file(top)
    else:
      gin.parse_config(text)
  if case['how'] == 'same-statement':
    # ONE statement configures a method of K for the first time and holds, as its value, a reference to K itself (written through the
    # same or another spelling of the module); K may or may not have been configured before
    pre = (case['ref_import'].replace('PK', pk) + '\n%s.K.a = 5\n' % rs) if case['scoped'] or case['second_method'] else ''
    ref_text = dyn + pre + case['meth_import'].replace('PK', pk) + '\n%s.K.meth.m = %s\n' % (
        ms, REF_WRAPS[wrap] % ('@%s%s.K%s' % (sc, ms, '' if wrap == 'uneval' else '()')))
    meth_text = ''
    try:
      parse(ref_text, 1)
      K = resolve_obj(pk, 'alpha.K')
      outer = gin.get_configurable(K)()
      inner = unwrap_ref(outer.meth()[1], wrap)
      innermost = unwrap_ref(inner.meth()[1], wrap) if isinstance(inner, K) else inner
      got = (isinstance(outer, K), isinstance(inner, K), isinstance(innermost, K))
    except Exception as e:  # pylint: disable=broad-except
      ctx.check(False, 'delivery-failed', 'a method binding whose value references the method\'s own class raised %s: %s\n%s' % (
          type(e).__name__, str(e)[:300].replace(pk, 'PK'), ref_text.replace(pk, 'PK')))
      gin.clear_config()
      return
    ctx.count('deliveries_compared')
    ctx.check(got == (True, True, True), 'reference-in-the-statement-that-configures-the-method-stale',
              'K.meth.m = @K(): (K() is a K, K().meth() got a K, that instance\'s meth() got a K) = %r\n%s' % (got, ref_text.replace(pk, 'PK')))
    gin.clear_config()
    return
  try:
    if case['how'] == 'second-parse':
      parse(ref_text, 1)
      parse(meth_text, 2)
    elif case['how'] == 'include':
      path = os.path.join(_S['tree'].root, pk + '_m.gin')
      open(path, 'w').write(meth_text)
      parse(ref_text + "include '%s'\n" % path, 1)
    else:
      path = os.path.join(_S['tree'].root, pk + '_r.gin')
      open(path, 'w').write(ref_text)
      parse("include '%s'\n" % path + meth_text, 1)
  except Exception as e:  # pylint: disable=broad-except
    ctx.check(False, 'method-configured-in-other-file-rejected', 'configuring a method of a class referenced from another file raised %s: %s\n%s\n---\n%s' %
              (type(e).__name__, str(e)[:300], ref_text.replace(pk, 'PK'), meth_text.replace(pk, 'PK')))
    return
  def obs():
    inst = unwrap_ref(gin.get_configurable(resolve_obj(pk, 'sub.gamma.fg'))()[2], wrap)
    return (inst.a, inst.meth()[1], inst.other()[1], isinstance(inst, resolve_obj(pk, 'alpha.K')))
  try:
    got = obs()
  except Exception as e:  # pylint: disable=broad-except
    ctx.check(False, 'delivery-failed', 'building an instance through a reference written in another file raised %s: %s\n%s\n---\n%s' % (
        type(e).__name__, str(e)[:300].replace(pk, 'PK'), ref_text.replace(pk, 'PK'), meth_text.replace(pk, 'PK')))
    gin.clear_config()
    return
  want = (5, 7, 8 if case['second_method'] else 0, True)
  ctx.count('deliveries_compared')
  ctx.check(got == want, 'reference-from-other-file-stale-after-method-registration',
            'instance built through a reference written in another file: (a, meth m, other o, instance of alpha.K) = %r, expected %r\n%s\n---\n%s' %
            (got, want, ref_text.replace(pk, 'PK'), meth_text.replace(pk, 'PK')))
  # the config string of the two files' bindings (their imports may collide) re-parses to the same deliveries
  try:
    s = gin.config_str()
  except Exception as e:  # pylint: disable=broad-except
    ctx.check(False, 'config-str-raised', 'cross-parse: config_str() raised %s: %s' % (type(e).__name__, str(e)[:300].replace(pk, 'PK')))
    gin.clear_config()
    return
  gin.clear_config()
  try:
    gin.parse_config(s)
    got2 = obs()
    s2 = gin.config_str()
    ctx.bucket('cross-parse:roundtrip')
    ctx.count('roundtrips')
    ctx.check(got2 == want, 'roundtrip-delivers-other-values', 'cross-parse: after re-parsing config_str(): %r expected %r\n%s' % (got2, want, s.replace(pk, 'PK')))
    ctx.check(s2 == s, 'roundtrip-text-differs', 'cross-parse: config_str not idempotent:\n%s\n---\n%s' % (s.replace(pk, 'PK'), s2.replace(pk, 'PK')))
  except Exception as e:  # pylint: disable=broad-except
    ctx.check(False, 'config-str-roundtrip-failed', 'cross-parse: re-parsing config_str() raised %s: %s\n%s' % (type(e).__name__, str(e)[:300].replace(pk, 'PK'), s.replace(pk, 'PK')))
  gin.clear_config()


def run_alias_collision(ctx, case):
  """Two files bind the same import name to different modules that contain equally named objects."""
  import gin
  gin.clear_config()
  pk = _S['tree'].new_package('c19a')
  dyn = 'from __gin__ import dynamic_registration\n'
  al = case['alias']
  t1 = dyn + (case['form'] % ('alpha', al)).replace('PK', pk) + '\n%s.shared.v = 1\n%s.K.a = 2\n' % (al, al)
  t2 = dyn + (case['form'] % ('beta', al)).replace('PK', pk) + '\n%s.shared.v = 10\n%s.K.a = 20\n' % (al, al)
  ctx.bucket('alias-collision:' + case['how'])
  ctx.fp('alias-collision', case['how'], al, case['form'], case.get('plain'))
  if case['how'].startswith('sibling-plain'):
    # one file calls module beta `alpha` (an alias equal to a sibling module's name), another imports the real alpha without any alias
    plain = case.get('plain', 'from PK import alpha')
    sel = 'alpha' if plain.startswith('from') else 'PK.alpha'
    t1 = dyn + plain.replace('PK', pk) + ('\n%s.shared.v = 1\n%s.K.a = 2\n' % (sel, sel)).replace('PK', pk)
    t2 = dyn + (case['form'] % ('beta', 'alpha')).replace('PK', pk) + '\nalpha.shared.v = 10\nalpha.K.a = 20\n'
    if case['how'] == 'sibling-plain-after-alias':
      t1, t2 = t2, t1
  if case['how'].startswith('alias-is-package-name'):
    # one file gives a module the alias that is the NAME OF THE PACKAGE; another file imports a module of that package plainly (`import PK.m`,
    # which binds that very name to the package). Whichever of the two module paths sorts first, both selectors keep their objects.
    amod, pmod, pobj = rng_pick(case, [('alpha', 'sub.gamma', 'fg.x'), ('sub.gamma', 'alpha', 'fa.x')])
    form = case['form'] if '.' not in amod else 'import PK.%s as %s'
    t1 = dyn + (form % (amod, 'PK')).replace('PK', pk) + ('\nPK.%s = 1\n' % ('shared.v' if amod == 'alpha' else 'fg.x')).replace('PK', pk)
    t2 = dyn + ('import PK.%s\nPK.%s.%s = 10\n' % (pmod, pmod, pobj)).replace('PK', pk)
    if case['how'].endswith('plain-first'):
      t1, t2 = t2, t1
    try:
      gin.parse_config(t1)
      gin.parse_config(t2)
    except Exception as e:  # pylint: disable=broad-except
      ctx.check(False, 'colliding-import-names-across-files-rejected', 'an alias equal to the package name and a plain import: %s: %s\n%s\n---\n%s' %
                (type(e).__name__, str(e)[:300], t1.replace(pk, 'PK'), t2.replace(pk, 'PK')))
      gin.clear_config()
      return
    a_obj = importlib_get(pk, 'alpha', 'shared') if amod == 'alpha' else resolve_obj(pk, 'sub.gamma.fg')
    p_obj = resolve_obj(pk, 'sub.gamma.fg') if pmod == 'sub.gamma' else resolve_obj(pk, 'alpha.fa')
    def obs2():
      return (gin.get_bindings(a_obj), gin.get_bindings(p_obj))
    want2 = ({'v' if amod == 'alpha' else 'x': 1}, {'x': 10})
    ctx.count('deliveries_compared')
    got = obs2()
    ctx.check(got == want2, 'binding-through-other-spelling-lost', 'alias equal to the package name: bindings %r expected %r' % (got, want2))
    try:
      s = gin.config_str()
      gin.clear_config()
      gin.parse_config(s)
      got2 = obs2()
      ctx.check(got2 == want2 and gin.config_str() == s, 'roundtrip-delivers-other-values',
                'alias equal to the package name: after re-parsing config_str(): %r expected %r\n%s' % (got2, want2, s.replace(pk, 'PK')))
    except Exception as e:  # pylint: disable=broad-except
      ctx.check(False, 'config-str-roundtrip-failed', 'alias equal to the package name: config_str / re-parsing raised %s: %s\n%s\n---\n%s' % (
          type(e).__name__, str(e)[:200].replace(pk, 'PK'), t1.replace(pk, 'PK'), t2.replace(pk, 'PK')))
    gin.clear_config()
    return
  if case['how'] == 'same-file-rebind':
    # within ONE file a later import statement re-binds the name, as in Python: selectors after it go through the later module
    t1 = (dyn + (case['form'] % ('alpha', al)).replace('PK', pk) + '\n%s.shared.v = 1\n%s.K.a = 2\n' % (al, al) +
          (case['form'] % ('beta', al)).replace('PK', pk) + '\n%s.shared.v = 10\n%s.K.a = 20\n' % (al, al))
    t2 = ''
  try:
    if case['how'] in ('second-parse', 'sibling-plain-after-alias', 'sibling-plain-before-alias', 'same-file-rebind'):
      gin.parse_config(t1)
      if t2:
        gin.parse_config(t2)
    else:
      path = os.path.join(_S['tree'].root, pk + '_c.gin')
      inner, outer = (t2, t1) if case['how'] == 'include' else (t1, t2)
      open(path, 'w').write(inner)
      gin.parse_config(outer + "include '%s'\n" % path)
  except Exception as e:  # pylint: disable=broad-except
    ctx.check(False, 'colliding-import-names-across-files-rejected', 'two files binding %r to different modules: %s: %s\n%s\n---\n%s' %
              (al, type(e).__name__, str(e)[:300], t1.replace(pk, 'PK'), t2.replace(pk, 'PK')))
    return
  def obs():
    return (gin.get_configurable(resolve_obj(pk, 'alpha.K'))().a, gin.get_configurable(resolve_obj(pk, 'beta.K'))().a,
            gin.get_configurable(importlib_get(pk, 'alpha', 'shared'))()[1], gin.get_configurable(importlib_get(pk, 'beta', 'shared'))()[1])
  ctx.count('deliveries_compared')
  got = obs()
  ctx.check(got == (2, 20, 1, 10), 'binding-through-other-spelling-lost', 'alias collision: (alpha.K.a, beta.K.a, alpha.shared.v, beta.shared.v) = %r, expected (2, 20, 1, 10)' % (got,))
  try:
    s = gin.config_str()
  except Exception as e:  # pylint: disable=broad-except
    ctx.check(False, 'config-str-raised', 'config_str() raised %s: %s' % (type(e).__name__, str(e)[:300].replace(pk, 'PK')))
    return
  gin.clear_config()
  try:
    gin.parse_config(s)
    got2 = obs()
    ctx.check(got2 == (2, 20, 1, 10) and gin.config_str() == s, 'roundtrip-delivers-other-values', 'alias collision: after re-parsing config_str(): %r\n%s' % (got2, s.replace(pk, 'PK')))
  except Exception as e:  # pylint: disable=broad-except
    ctx.check(False, 'config-str-roundtrip-failed', 'alias collision: re-parsing config_str() raised %s: %s\n%s' % (type(e).__name__, str(e)[:200], s.replace(pk, 'PK')))
  gin.clear_config()


def rng_pick(case, options):
  """A choice that is a function of the case (so that a replay takes the same one)."""
  return options[(len(case['alias']) + len(case['form']) + len(case.get('plain', ''))) % len(options)]


def importlib_get(pk, mod, name):
  import importlib
  return getattr(importlib.import_module(pk + '.' + mod), name)


def run_class_shapes(ctx, case):
  """Methods the quantifier covers beyond plain ones: inherited from a base class, static, class methods."""
  import importlib
  import gin
  gin.clear_config()
  pk = _S['tree'].new_package('c19s')
  alpha = importlib.import_module(pk + '.alpha')
  dyn = 'from __gin__ import dynamic_registration\nfrom %s import alpha\n' % pk
  which = case['which']
  ctx.bucket('class-shape:' + which)
  ctx.fp('class-shape', which, case['order'])
  if which == 'inherited-method':
    stmts = ['alpha.K.meth.m = 2', 'alpha.Sub.a = 1']
    if case['order']:
      stmts.reverse()
    try:
      gin.parse_config(dyn + '\n'.join(stmts) + '\n')
      sub = gin.get_configurable(alpha.Sub)()
      k = gin.get_configurable(alpha.K)()
      got = (sub.a, sub.meth()[1], k.meth()[1])
      ctx.check(got == (1, 2, 2), 'inherited-method-of-configured-class', 'K.meth.m = 2 and Sub.a = 1 (Sub inherits meth from K): (Sub().a, Sub().meth() m, K().meth() m) = %r' % (got,))
    except Exception as e:  # pylint: disable=broad-except
      ctx.check(False, 'inherited-method-of-configured-class', 'configuring K.meth and its subclass Sub in one file (%s) raised %s: %s' % (
          ' then '.join(stmts), type(e).__name__, str(e)[:200].replace(pk, 'PK')))
  else:
    name, prm = ('st', 's') if which == 'static-method' else ('cm', 'c')
    try:
      gin.parse_config(dyn + 'alpha.S.%s.%s = 7\n' % (name, prm))
      inst = gin.get_configurable(alpha.S)()
      got = getattr(inst, name)()
      ctx.check(got[1] == 7, 'static-or-class-method-binding-not-delivered', 'alpha.S.%s.%s = 7: calling it on an instance of the configured class returned %r' % (name, prm, got))
    except Exception as e:  # pylint: disable=broad-except
      ctx.check(False, 'static-or-class-method-binding-not-delivered', 'alpha.S.%s.%s = 7 raised %s: %s' % (name, prm, type(e).__name__, str(e)[:200].replace(pk, 'PK')))
  gin.clear_config()


# ---------------------------------------------------------------------------------------------------------------------------------------------
# File trees: several top-level parse calls, nested / double / diamond includes, every file with its own (colliding) imports.
# Extra modules are generated into the package directory (the shared package source is fixed).
FT_EPS = """
def shared(v=0):
  return ('{pk}.{mod}.shared', v)
class K:
  def __init__(self, a=0):
    self.a = a
  def meth(self, m=0):
    return ('{pk}.{mod}.K.meth', m, self.a)
  class Inner:
    def __init__(self, i=0):
      self.i = i
    def deep(self, d=0):
      return ('{pk}.{mod}.K.Inner.deep', d, self.i)
"""
FT_REEXP = """
import gin
from {pk}.alpha import shared as shared_again, K as K_again     # re-exported objects: the same python objects under other names
from {pk} import eps as eps_mod
@gin.configurable('regcls_{pk}')
class Reg:
  def __init__(self, r=0):
    self.r = r
  def rm(self, q=0):
    return ('{pk}.reexp.Reg.rm', q, self.r)
"""
FT_GIN = "def f(x=0):\n  return x\n"       # a module that happens to be called gin


def extend_package(pk):
  """Adds eps, sub.eps (same shape as alpha: function, class, method, nested class, nested method), reexp and a module named gin."""
  import importlib
  d = os.path.join(_S['tree'].root, pk)
  for rel, src in (('eps.py', FT_EPS.replace('{mod}', 'eps')), ('sub/eps.py', FT_EPS.replace('{mod}', 'sub.eps')), ('reexp.py', FT_REEXP), ('gin.py', FT_GIN)):
    with open(os.path.join(d, rel), 'w') as f:
      f.write(src.replace('{pk}', pk))
  importlib.invalidate_caches()


FT_FULL = [['shared', 'shared', 'v'], ['K', 'K', 'a'], ['K.meth', 'K.meth', 'm'], ['K.Inner', 'K.Inner', 'i'], ['K.Inner.deep', 'K.Inner.deep', 'd']]
# module as imported -> [member path as written after the module spelling, canonical (module, object path), parameter]
FT_MEMBERS = {
    'alpha': [[m, ['alpha', o], p] for m, o, p in FT_FULL],
    'eps': [[m, ['eps', o], p] for m, o, p in FT_FULL],
    'sub.eps': [[m, ['sub.eps', o], p] for m, o, p in FT_FULL],
    'beta': [['shared', ['beta', 'shared'], 'v'], ['K', ['beta', 'K'], 'a']],
    'reexp': [['shared_again', ['alpha', 'shared'], 'v'], ['K_again', ['alpha', 'K'], 'a'], ['K_again.meth', ['alpha', 'K.meth'], 'm'], ['eps_mod.K', ['eps', 'K'], 'a'],
              ['eps_mod.K.Inner', ['eps', 'K.Inner'], 'i'], ['eps_mod.K.Inner.deep', ['eps', 'K.Inner.deep'], 'd'], ['Reg', ['reexp', 'Reg'], 'r'], ['Reg.rm', ['reexp', 'Reg.rm'], 'q']],
}
FT_OBJECTS = ([(m, o, p) for m in ('alpha', 'eps', 'sub.eps') for _, o, p in FT_FULL] + [('beta', 'shared', 'v'), ('beta', 'K', 'a'), ('reexp', 'Reg', 'r'), ('reexp', 'Reg.rm', 'q')])
FT_SHAPES = {   # file id -> included file ids; roots = files parsed by successive top-level calls
    'chain3': ({0: [1], 1: [2], 2: []}, [0]),
    'two-includes': ({0: [1, 2], 1: [], 2: []}, [0]),
    'diamond': ({0: [1, 2], 1: [3], 2: [3], 3: []}, [0]),
    'sequence': ({0: [], 1: [], 2: []}, [0, 1, 2]),
    'sequence-with-include': ({0: [2], 1: [], 2: []}, [0, 1]),
}
# relation of the file using a foreign name (F) to the file whose import binds it (D): shape, F, D
FT_RELATIONS = {
    'earlier-parse': [('sequence', 1, 0), ('sequence', 2, 0), ('sequence-with-include', 1, 0), ('sequence-with-include', 1, 2)],
    'parent': [('chain3', 1, 0), ('chain3', 2, 1), ('diamond', 3, 1)],
    'grandparent': [('chain3', 2, 0), ('diamond', 3, 0)],
    'child': [('chain3', 0, 1), ('two-includes', 0, 2), ('chain3', 1, 2)],
    'grandchild': [('chain3', 0, 2), ('diamond', 0, 3)],
    'sibling-include': [('two-includes', 2, 1), ('diamond', 2, 1), ('diamond', 2, 3)],
}
POISON = 777777
# DEFECT (reported, reproducer /tmp/impl/C19/defect_1.py): when the name a file's import binds is bound to ANOTHER module by another file and that
# other module's class K is already registered under the alias-derived selector, configuring a METHOD of this file's K before K itself raises
# ValueError ('registered with a custom module ... but the class is also being registered'): the method is registered under the alias-derived
# module, its class then falls back to the real module path. While this is False the generator lets the class be addressed first through every
# import whose alias-derived selector prefix collides with another import's; set it to True once gin is repaired (the oracle needs no change).
ENABLE_METHOD_BEFORE_CLASS_UNDER_COLLIDING_NAME = True


def ft_spelling(imp):
  """(import lines, names they bind, spelling of the module in selectors) of an import [module, form, alias]."""
  mod, form, alias = imp
  parent, last = ('PK.' + mod).rsplit('.', 1)
  if form == 'as':
    return ['import PK.%s as %s' % (mod, alias)], [alias], alias
  if form == 'from-as':
    return ['from %s import %s as %s' % (parent, last, alias)], [alias], alias
  if form == 'from':
    return ['from %s import %s' % (parent, last)], [last], last
  if form == 'pkg':     # `from PK import sub` next to a plain import of the submodule (which makes it an attribute of the package)
    return ['import PK.%s' % mod, 'from PK import sub'], ['PK', 'sub'], mod
  return ['import PK.%s' % mod], ['PK'], 'PK.' + mod


def ft_prefix(imp):
  """The selector prefix gin derives from an import for the objects reached through it (bound name instead of the module's own name)."""
  mod, form, alias = imp
  if form in ('as', 'from-as'):
    return '.'.join(('PK.' + mod).split('.')[:-1] + [alias])
  return 'PK.' + mod


def ft_hazard(files, roots, events=None):
  """(file id, item index) of the first statement, in parse order, that runs into the defect described at
  ENABLE_METHOD_BEFORE_CLASS_UNDER_COLLIDING_NAME: a method of a not yet registered class whose alias-derived selector belongs to another
  module's class while the method's own does not (or the fall-back names are claimed too). Follows gin's naming of first registrations."""
  registered, claimed = set(), {}
  def claim(obj, sel, real):
    registered.add(obj)
    if claimed.setdefault(sel, obj) != obj:
      claimed.setdefault(real, obj)
  def walk(fid):
    f = files[str(fid)]
    for k, it in enumerate(f['items']):
      if it[0] == 'include':
        hz = walk(it[1])
        if hz:
          return hz
      elif it[0] == 'bind':
        imp = f['imports'][it[1]]
        written, (mod, opath), _ = FT_MEMBERS[imp[0]][it[2]]
        obj = (mod, opath)
        if obj in registered:
          continue
        sel, real = ft_prefix(imp) + '.' + written, 'PK.%s.%s' % (mod, opath)
        if opath.split('.')[-1] in ('meth', 'deep', 'rm'):
          cls = (mod, opath.rsplit('.', 1)[0])
          csel, creal = sel.rsplit('.', 1)[0], real.rsplit('.', 1)[0]
          if cls not in registered:
            cls_taken, meth_taken = claimed.get(csel, cls) != cls, claimed.get(sel, obj) != obj
            real_free = claimed.get(creal, cls) == cls and claimed.get(real, obj) == obj
            if cls_taken and not (meth_taken and real_free):
              return (str(fid), k)
            if cls_taken and events is not None:
              events.append('method-before-class-under-colliding-name')
            claim(obj, sel, real)
            claim(cls, csel, creal)
          else:
            registered.add(obj)
        else:
          claim(obj, sel, real)
    return None
  for r in roots:
    hz = walk(r)
    if hz:
      return hz
  return None


def gen_ftree(rng, negative, fresh=False, turn=None):
  relation = None
  if turn is None:
    turn = rng.randrange(36)
  if negative:
    relation = sorted(FT_RELATIONS)[turn % 6]
    shape, f_id, d_id = rng.choice(FT_RELATIONS[relation])
  else:
    shape = rng.choice(sorted(FT_SHAPES))
  includes, roots = FT_SHAPES[shape]
  focus = rng.random() < 0.4
  focus_mods = rng.sample(['alpha', 'eps', 'sub.eps'], 3)
  files = {}
  val = 10
  for fid in sorted(includes):
    imports, bound = [], set()
    focus_members = rng.choice([[1, 3], [2, 4], [2, 4], [2, 4]])       # (focus) this file mostly addresses K and K.Inner / K.meth and K.Inner.deep
    for _ in range(rng.choice([1, 1, 2])):
      mod = rng.choice(['alpha', 'alpha', 'beta', 'eps', 'eps', 'sub.eps', 'sub.eps', 'reexp'])
      form = rng.choice(['as', 'from-as', 'from-as', 'from', 'plain'] + (['pkg'] if mod == 'sub.eps' else []))
      imp = [mod, form, rng.choice(['X', 'X', 'X', 'eps', 'alpha', 'mod'])]
      if focus:     # every file calls its module X, and the modules have equally named classes with equally named methods
        imp = [focus_mods[fid % 3] if rng.random() < 0.6 else rng.choice(['alpha', 'eps']), rng.choice(['as', 'from-as']), 'X']
      names = ft_spelling(imp)[1]
      if any(nm in bound and nm != 'PK' for nm in names):
        continue        # two statements of one file binding one name: covered by alias-collision:same-file-rebind
      bound.update(names)
      imports.append(imp)
    items = []
    for _ in range(rng.choice([1, 2, 3, 4])):
      ii = rng.randrange(len(imports))
      mi = rng.randrange(len(FT_MEMBERS[imports[ii][0]]))
      if focus and rng.random() < 0.7:
        mi = rng.choice(focus_members)
      if imports[ii][0] == 'reexp' and rng.random() < 0.3:
        mi = len(FT_MEMBERS['reexp']) - 1      # Reg.rm
      val += 1
      items.append(['bind', ii, mi, val, rng.choice(['line', 'line', 'line', 'block']), rng.choice(['', '', '', 'sc'])])
    for child in includes[fid]:
      items.insert(rng.randrange(len(items) + 1), ['include', child])
    files[str(fid)] = {'imports': imports, 'items': items}
  case = {'kind': 'ftree', 'shape': shape, 'files': files, 'roots': roots, 'fresh': bool(fresh and not negative),
          'entry': rng.choice(['parse_config', 'parse_config_file', 'parse_config_files_and_bindings', 'mixed'])}
  if not negative and len(roots) > 1 and case['entry'] != 'parse_config_files_and_bindings' and rng.random() < 0.5:
    case['clear_after_first'] = True
  if relation == 'earlier-parse' and rng.random() < 0.5:
    case['entry'] = 'parse_config_files_and_bindings'       # the file using the foreign name is the list of extra bindings
  if negative:
    f, d = files[str(f_id)], files[str(d_id)]
    di = rng.randrange(len(d['imports']))
    f_bound = {nm for imp in f['imports'] for nm in ft_spelling(imp)[1]} | {'gamma'}
    if any(nm in f_bound for nm in ft_spelling(d['imports'][di])[1]) or d['imports'][di][1] in ('plain', 'pkg'):
      # make the name foreign to F (F's own statements are rendered from its own import table and do not change)
      d['imports'][di] = [d['imports'][di][0], rng.choice(['as', 'from-as']), 'Q7']
    position = ['binding', 'block', 'reference', 'reference-in-container', 'macro-value', 'scoped-binding'][(turn + turn // 6) % 6]
    if position.startswith('reference'):
      f['imports'].append(['sub.gamma', 'from', None])
    mi = rng.randrange(len(FT_MEMBERS[d['imports'][di][0]]))
    bad = ['bad', d_id, di, mi, position]
    if relation in ('child', 'grandchild'):
      f['items'].append(bad)        # after the include statement through which the name's file is parsed
    else:
      f['items'].insert(rng.randrange(len(f['items']) + 1), bad)
    case.update(relation=relation, bad_file=f_id)
  # (after the re-aliasing above: it changes which selectors collide)
  if not ENABLE_METHOD_BEFORE_CLASS_UNDER_COLLIDING_NAME:
    # a fresh interpreter registers in the order of the emitted text, which the generator does not control: the same defect is reached when the
    # text keeps two imports with one selector prefix (`import PK.alpha` next to `from PK import eps as alpha`: different bound names, not re-aliased)
    imps = [imp for f in files.values() for imp in f['imports']]
    if any(p[1] in ('plain', 'pkg') and q[1] in ('as', 'from-as') and p[0] != q[0] and ft_prefix(p) == ft_prefix(q) for p in imps for q in imps):
      case['fresh'] = False
    while True:
      hz = ft_hazard(files, roots)
      if hz is None:
        break
      fid, k = hz
      it = files[fid]['items'][k]
      members = FT_MEMBERS[files[fid]['imports'][it[1]][0]]
      val += 1
      files[fid]['items'].insert(k, ['bind', it[1], [m[0] for m in members].index(members[it[2]][0].rsplit('.', 1)[0]), val, 'line', ''])
  return case


def ft_render(case, pk, fid, paths):
  """Text of file `fid`."""
  f = case['files'][str(fid)]
  lines = ['from __gin__ import dynamic_registration']
  for imp in f['imports']:
    lines += ft_spelling(imp)[0]
  for it in f['items']:
    if it[0] == 'include':
      lines.append("include '%s'" % paths[str(it[1])])
    elif it[0] == 'bind':
      _, ii, mi, val, style, scope = it
      member, _, prm = FT_MEMBERS[f['imports'][ii][0]][mi]
      sel = '%s%s.%s' % (scope + '/' if scope else '', ft_spelling(f['imports'][ii])[2], member)
      lines.append('%s:\n  %s = %d' % (sel, prm, val) if style == 'block' else '%s.%s = %d' % (sel, prm, val))
    else:
      _, d_id, di, mi, position = it
      dimp = case['files'][str(d_id)]['imports'][di]
      member, _, prm = FT_MEMBERS[dimp[0]][mi]
      sel = '%s.%s' % (ft_spelling(dimp)[2], member)
      cls = '%s.%s' % (ft_spelling(dimp)[2], 'Reg' if dimp[0] == 'reexp' else 'K')
      lines.append({'binding': '%s.%s = %d' % (sel, prm, POISON), 'block': '%s:\n  %s = %d' % (sel, prm, POISON), 'scoped-binding': 'sc/%s.%s = %d' % (sel, prm, POISON),
                    'reference': 'gamma.fg.ref = @%s()' % cls, 'reference-in-container': 'gamma.fg.ref = [1, @%s]' % cls, 'macro-value': 'BADM = @%s()' % cls}[position])
  return '\n'.join(lines).replace('PK', pk) + '\n'


def ft_model(case):
  """(scope, module, object path, parameter) -> value, by walking the files in parse order (later statements win). None when a bad statement stops it."""
  model = {}
  def walk(fid):
    for it in case['files'][str(fid)]['items']:
      if it[0] == 'include':
        walk(it[1])
      elif it[0] == 'bind':
        _, ii, mi, val, _, scope = it
        _, (mod, opath), prm = FT_MEMBERS[case['files'][str(fid)]['imports'][ii][0]][mi]
        model[(scope, mod, opath, prm)] = val
  for n, r in enumerate(case['roots']):
    if n and case.get('clear_after_first'):
      model.clear()
    walk(r)
  return model


def ft_observe(gin, pk):
  """What every object of the (extended) package receives in the root scope and in scope sc, reached through the python object itself:
  'scope|module|object path' -> [value, 'ok' or what answered instead of the exact object]."""
  import importlib
  out = {}
  for scope in ('', 'sc'):
    with gin.config_scope(scope or None):
      for mod, opath, prm in FT_OBJECTS:
        m = importlib.import_module(pk + '.' + mod)
        parts = opath.split('.')
        tag = '%s.%s.%s' % (pk, mod, opath)
        if parts[-1] == 'shared':
          r = _cfg(gin, m.shared)()
          res = [r[1], 'ok' if r[0] == tag else repr(r[0])]
        elif parts[-1] in ('K', 'Inner', 'Reg'):
          cls = m
          for a in parts:
            cls = getattr(cls, a)
          inst = _cfg(gin, cls)()
          res = [getattr(inst, prm), 'ok' if isinstance(inst, cls) else repr(type(inst))]
        else:
          cls = m
          for a in parts[:-1]:
            cls = getattr(cls, a)
          inst = _cfg(gin, cls)()
          r = getattr(inst, parts[-1])()
          res = [r[1], 'ok' if isinstance(inst, cls) and r[0] == tag else repr((type(inst), r[0]))]
        out['%s|%s|%s' % (scope, mod, opath)] = [res[0], res[1].replace(pk, 'PK')]
  return out


FT_SNIPPET = r"""
import sys, json
sys.path.insert(0, %(repo)r); sys.path.insert(0, %(verif)r); sys.path.insert(0, %(root)r)
import gin
from vf.checks import c19
gin.parse_config(open(%(cfg)r).read())
print('@@' + json.dumps(c19.ft_observe(gin, %(pk)r)))
"""


def run_ftree(ctx, case):
  import gin
  gin.clear_config()
  pk = _S['tree'].new_package('c19f')
  extend_package(pk)
  root = _S['tree'].root
  fids = sorted(case['files'], key=int)
  paths = {fid: os.path.join(root, '%s_f%s.gin' % (pk, fid)) for fid in fids}
  texts = {fid: ft_render(case, pk, int(fid), paths) for fid in fids}
  for fid in fids:
    with open(paths[fid], 'w') as f:
      f.write(texts[fid])
  negative = 'relation' in case
  shown = '\n'.join('--- file %s%s\n%s' % (fid, ' (top level)' if int(fid) in case['roots'] else '', texts[fid]) for fid in fids).replace(pk, 'PK')
  # coverage
  ctx.bucket('ftree:shape:' + case['shape'])
  bound_by = {}
  for fid in fids:
    f = case['files'][fid]
    for imp in f['imports']:
      if imp[0] == 'sub.gamma':
        continue
      for nm in ft_spelling(imp)[1]:
        if nm != 'PK':
          bound_by.setdefault(nm, set()).add(imp[0])
      if imp[1] == 'pkg':
        ctx.bucket('ftree:spelling:package-then-submodule')
      if imp[1] == 'plain' and imp[0] == 'sub.eps':
        ctx.bucket('ftree:spelling:plain-three-components')
    for it in f['items']:
      if it[0] == 'bind':
        imp = f['imports'][it[1]]
        member, (mod, opath), _ = FT_MEMBERS[imp[0]][it[2]]
        if imp[0] == 'reexp' and mod != 'reexp':
          ctx.bucket('ftree:spelling:re-exported-object')
        if opath == 'Reg.rm':
          ctx.bucket('ftree:obj:decorator-registered-class-method')
        if it[4] == 'block':
          ctx.bucket('ftree:form:block')
  colliding = {nm for nm, mods in bound_by.items() if len(mods) > 1}
  events = []
  if not negative and ft_hazard(case['files'], case['roots'], events) is not None:
    ctx.bucket('ftree:method-before-class-where-gin-is-known-to-fail')
  for ev in events[:1] if not negative else []:
    ctx.bucket('ftree:' + ev)
  if colliding:
    ctx.bucket('ftree:colliding-bound-name-across-files')
  if any(len(bound_by[nm]) > 2 for nm in colliding):
    ctx.bucket('ftree:colliding-name-three-files')
  for fid in fids:
    f = case['files'][fid]
    for it in f['items']:
      if it[0] == 'bind' and '.' in FT_MEMBERS[f['imports'][it[1]][0]][it[2]][0] and set(ft_spelling(f['imports'][it[1]])[1]) & colliding:
        ctx.bucket('ftree:class-member-through-colliding-name')
  ctx.fp('ftree', case['shape'], case['entry'], case.get('relation'), tuple((fid, tuple(map(tuple, case['files'][fid]['imports'])), tuple((it[0],) + tuple(it[1:3]) + tuple(it[4:]) for it in case['files'][fid]['items'])) for fid in fids))
  ctx.sample({'ftree': shown}, cap=2)
  # ---- parse: one top-level call per root
  roots = [str(r) for r in case['roots']]
  entry = case['entry']
  err = None
  try:
    if entry == 'parse_config_files_and_bindings':
      ctx.bucket('ftree:entry:parse_config_files_and_bindings')
      gin.parse_config_files_and_bindings([paths[r] for r in roots[:-1]], texts[roots[-1]].splitlines(), finalize_config=False)
    else:
      for n, r in enumerate(roots):
        if n and case.get('clear_after_first'):
          # a new configuration generation: what the first call registered stays registered (and callable), its bindings and imports are gone
          gin.clear_config()
          ctx.bucket('ftree:registered-before-clear_config')
        how = entry if entry != 'mixed' else ('parse_config', 'parse_config_file')[(n + int(fids[-1])) % 2]
        ctx.bucket('ftree:entry:' + how)
        if how == 'parse_config':
          gin.parse_config(texts[r])
        else:
          gin.parse_config_file(paths[r])
  except Exception as e:  # pylint: disable=broad-except
    err = e
  if negative:
    ctx.bucket('isolation:' + case['relation'])
    position = [it for it in case['files'][str(case['bad_file'])]['items'] if it[0] == 'bad'][0][4]
    ctx.bucket('isolation:position:' + position)
    if err is None:
      ctx.check(False, 'name-of-another-file-accepted', 'file %s uses a name that only the imports of another file (%s) provide (%s position): accepted\n%s' % (
          case['bad_file'], case['relation'], position, shown))
    elif not isinstance(err, NameError):
      ctx.check(False, 'name-of-another-file-wrong-exception', 'file %s uses a name only provided by another file (%s, %s position): expected NameError, got %s: %s\n%s' % (
          case['bad_file'], case['relation'], position, type(err).__name__, str(err)[:300].replace(pk, 'PK'), shown))
    else:
      ctx.count('oracle_evals')
    # whatever happened, the statement resolves to no object: no object may have received its value
    try:
      import importlib
      obs = ft_observe(gin, pk)
      ref = _cfg(gin, importlib.import_module(pk + '.sub.gamma').fg)()[2]
      ctx.bucket('isolation:nothing-delivered')
      ctx.check(not any(v[0] == POISON for v in obs.values()) and ref is None, 'statement-with-unresolvable-name-configured-an-object',
                'a statement whose first name no import of its file provides (%s, %s position) delivered its value: %r ref=%r\n%s' % (
                    case['relation'], position, {k: v for k, v in obs.items() if v[0] == POISON}, ref, shown))
    except Exception as e:  # pylint: disable=broad-except
      ctx.check(False, 'delivery-failed', 'after a rejected file tree, calling the objects raised %s: %s\n%s' % (type(e).__name__, str(e)[:300].replace(pk, 'PK'), shown))
    gin.clear_config()
    return
  if err is not None:
    ctx.check(False, 'valid-dynamic-config-rejected', 'file tree (%s, %s) raised %s: %s\n%s' % (case['shape'], entry, type(err).__name__, str(err)[:300].replace(pk, 'PK'), shown))
    gin.clear_config()
    return
  model = ft_model(case)
  expect = {}
  for scope in ('', 'sc'):
    for mod, opath, prm in FT_OBJECTS:
      v = model.get(('', mod, opath, prm), 0)
      if scope:
        v = model.get((scope, mod, opath, prm), v)
      expect['%s|%s|%s' % (scope, mod, opath)] = [v, 'ok']
  def compare(got, key, what, text):
    d = {k: (got.get(k), expect[k]) for k in expect if got.get(k) != expect[k]}
    if d and all(g is not None and g[0] == e[0] for g, e in d.values()):
      key = 'configured-object-is-not-the-exact-object'
    ctx.check(not d, key, '%s: (got, expected) %r\n%s' % (what, d, text))
  try:
    got = ft_observe(gin, pk)
  except Exception as e:  # pylint: disable=broad-except
    ctx.check(False, 'delivery-failed', 'file tree: calling the objects raised %s: %s\n%s' % (type(e).__name__, str(e)[:300].replace(pk, 'PK'), shown))
    gin.clear_config()
    return
  ctx.count('deliveries_compared')
  compare(got, 'binding-through-other-spelling-lost', 'file tree (%s, %s)' % (case['shape'], entry), shown)
  try:
    s = gin.config_str()
    op = gin.operative_config_str()
  except Exception as e:  # pylint: disable=broad-except
    ctx.check(False, 'config-str-raised', 'file tree: config_str() / operative_config_str() raised %s: %s\n%s' % (type(e).__name__, str(e)[:300].replace(pk, 'PK'), shown))
    gin.clear_config()
    return
  nsec = sum(1 for l in s.splitlines() if l.startswith('# Parameters for '))
  want = len({k[:3] for k in model})
  ctx.check(nsec == want, 'sections-per-object', 'file tree: config_str has %d sections for %d configured (scope, object) pairs:\n%s\n%s' % (nsec, want, s.replace(pk, 'PK'), shown))
  for name, text, key_fail, key_val in (('config_str', s, 'config-str-roundtrip-failed', 'roundtrip-delivers-other-values'),
                                        ('operative', op, 'operative-config-str-roundtrip-failed', 'operative-roundtrip-delivers-other-values')):
    gin.clear_config()
    try:
      gin.parse_config(text)
      got2 = ft_observe(gin, pk)
      s2 = gin.config_str()
    except Exception as e:  # pylint: disable=broad-except
      ctx.check(False, key_fail, 'file tree: re-parsing %s raised %s: %s\n%s\n%s' % (name, type(e).__name__, str(e)[:300].replace(pk, 'PK'), text.replace(pk, 'PK'), shown))
      continue
    ctx.count('roundtrips')
    ctx.bucket('ftree:roundtrip:' + name)
    compare(got2, key_val, 'file tree: after re-parsing %s' % name, text.replace(pk, 'PK') + '\n' + shown)
    if name == 'config_str':
      ctx.check(s2 == s, 'roundtrip-text-differs', 'file tree: config_str not idempotent:\n%s\n---\n%s' % (s.replace(pk, 'PK'), s2.replace(pk, 'PK')))
  if case.get('fresh'):
    cfg = os.path.join(root, pk + '_rt.gin')
    open(cfg, 'w').write(s)
    code = FT_SNIPPET % {'repo': core.repo_root(), 'verif': core.VERIF, 'root': root, 'cfg': cfg, 'pk': pk}
    try:
      r = subprocess.run([core.PY, '-c', code], capture_output=True, text=True, timeout=120, env=dict(os.environ, PYTHONHASHSEED='0'))
    except subprocess.TimeoutExpired:
      raise core.Inconclusive('fresh interpreter timed out')
    line = [l for l in r.stdout.splitlines() if l.startswith('@@')]
    if ctx.check(bool(line), 'fresh-process-roundtrip-failed', 'file tree: fresh interpreter failed: %s\n%s' % (r.stderr[-600:].replace(pk, 'PK'), s.replace(pk, 'PK'))):
      ctx.bucket('ftree:roundtrip:fresh-process')
      compare(json.loads(line[0][2:]), 'fresh-process-delivers-other-values', 'file tree: fresh interpreter', s.replace(pk, 'PK') + '\n' + shown)
  gin.clear_config()


def run_case(ctx, case):
  if case['kind'] == 'ftree':
    return run_ftree(ctx, case)
  if case['kind'] == 'class-shape':
    return run_class_shapes(ctx, case)
  if case['kind'] == 'alias-collision':
    return run_alias_collision(ctx, case)
  if case['kind'] == 'cross-parse':
    return run_cross_parse(ctx, case)
  if case['kind'] == 'bindings':
    run_bindings(ctx, case)
  else:
    run_errors(ctx, case)


LEVEL_TEXT = ('Runtime metamorphic monitor on a freshly generated package per case: values bound through every available import spelling (line and block '
              'form) must be delivered to the exact Python object (reached through gin.get_configurable(<object>); instances and return tags identify it; '
              'objects nothing was bound to must receive nothing), regardless of the order of first use of classes, methods and references (bare, inside '
              'containers, unevaluated, to nested classes, held by macros or scoped bindings); config_str() must have one section per object and re-parse to '
              'the same deliveries and text in the same process and in a fresh interpreter, operative_config_str() to the same deliveries; file trees parsed '
              'by one to three top-level calls (parse_config, parse_config_file, parse_config_files_and_bindings, with clear_config in between) with nested, '
              'double and diamond includes whose files bind colliding names; name/attribute/reserved-name/enabling faults must raise the stated exception '
              'classes, and a name provided only by an earlier call, an ancestor, a descendant or a sibling include is a NameError that configures nothing.')
LEVEL_NOTE = ('Trusted: the spelling tables in this file (which names each import form binds) and, while ENABLE_METHOD_BEFORE_CLASS_UNDER_COLLIDING_NAME is '
              'False, the model of first-registration names used to keep the generator away from one reported defect. Two fixed package shapes '
              '(14 + 19 objects) with random import subsets, aliases, orders and include structures.')
TECHNIQUE = 'runtime metamorphic monitor (spelling A vs spelling B, first parse vs config_str / operative_config_str re-parse vs fresh interpreter) on generated packages and file trees'
DESIGN_REF = 'DESIGN.md section 4, C19'
