"""C06 — the config string round-trips, is canonical and always parses."""
import math
import re

from vf import gen, probes, snap
from vf.teq import canon

ID = 'C06'
LEVEL = 'exploration'
RULE = ('configurations built from a random binding set (literal value trees incl. long strings, nested containers, references, macros, scoped and '
        'module-qualified names with colliding base names, registered methods, case-variant scopes/names, non-literal values: objects, lambdas, '
        'sets, nan/inf, complex, custom reprs that look like @x, %x, "(1, 2", \'abc\'; non-literal macro values) applied by parse text or bind_parameter in '
        '2-4 random orders, stdlib imports in four forms, random (max_line_length > continuation_indent >= 0). Oracles: (a) config_str parses on a '
        'cleared config and restores exactly the model\'s representable subset (own classifier), imports preserved, re-serialisation identical; '
        '(b) identical text for every permutation; (c) parameters sorted inside sections, sections non-decreasing in the case-folded innermost name; '
        '(d) markdown() keeps every binding line verbatim. distinct = (value-kind set, name features, width class, import forms)')
TIERS = {
    'quick': {'workers': 8, 'cases': 700, 'timeout': 600},
    'thorough': {'workers': 16, 'cases': 9000, 'timeout': 3000},
}
# further workloads for the property's online monitor (vf/online.py): the repository's tests and other checks' generated cases
ONLINE = {'which': ['rt'], 'rt_classify': True, 'foreign': ['C01', 'C04', 'C05', 'C07', 'C10', 'C11', 'C12', 'C17', 'C20'], 'n': {'quick': 30, 'thorough': 400}}
REQUIRED_BUCKETS = ['value:long-string', 'value:nested', 'value:reference', 'value:macro-ref', 'value:nonliteral-object', 'value:nonliteral-set', 'value:nan-inf',
                    'value:repr-looks-like-reference', 'value:repr-unbalanced', 'value:repr-looks-like-string', 'value:equal-to-literal-but-repr-is-not-one', 'value:repr-raises', 'value:complex', 'macro:literal', 'macro:nonliteral',
                    'name:module-qualified-needed', 'name:method', 'name:case-variant-scope', 'name:case-variant-configurable', 'name:case-variant-macro',
                    'width:tiny', 'width:indent0', 'width:default', 'imports:present', 'imports:from', 'imports:alias', 'perm:3+', 'roundtrip:done',
                    'omitted:nonrepresentable', 'api:bind_parameter', 'api:text', 'registration:dynamic', 'history:registration-after-config_str']
ORACLE_COUNTERS = ['oracle_evals', 'roundtrips', 'permutations_compared', 'markdown_checked']
_S = {}
HDR = re.compile(r'^# Parameters for (.+):$')


class ReprLike:
  """An object whose repr mimics some literal text but which is not that literal."""

  def __init__(self, text):
    self.text = text

  def __repr__(self):
    return self.text


class EqFloat(float):
  """Equal to a literal, but printed with a unit: the repr merely *starts* with that literal."""

  def __repr__(self):
    return '1.5 deg'


class EqIntInjecting(int):
  """Equal to a literal; the repr continues on a new line with what looks like another statement."""

  def __repr__(self):
    return '1\nc6.c6c.Z = 666'


class ReprRaises:

  def __repr__(self):
    raise RuntimeError('this object has no repr')


NONLIT = {
    'object': lambda: object(),
    'lambda': lambda: (lambda: 0),
    'set': lambda: {1, 2},
    'nan': lambda: float('nan'),
    'inf': lambda: float('-inf'),
    'complex': lambda: 1 + 2j,
    'repr-ref': lambda: ReprLike('@c6_unknown_configurable'),
    'repr-refcall': lambda: ReprLike('@c6a()'),
    'repr-macro': lambda: ReprLike('%c6_some_macro'),
    'repr-unbalanced': lambda: ReprLike('(1, 2'),
    'repr-unterminated': lambda: ReprLike("'abc"),
    'repr-string': lambda: ReprLike("'abc'"),
    'repr-junk': lambda: ReprLike('1 2 $'),
    'repr-empty': lambda: ReprLike(''),
    'repr-newline': lambda: ReprLike('1\nc6a.x = 2'),
    'eq-literal-repr-trailing': lambda: EqFloat(1.5),
    'eq-literal-repr-injects': lambda: EqIntInjecting(1),
    'repr-raises': lambda: ReprRaises(),
}
NONLIT_BUCKET = {'object': 'value:nonliteral-object', 'lambda': 'value:nonliteral-object', 'set': 'value:nonliteral-set', 'nan': 'value:nan-inf', 'inf': 'value:nan-inf',
                 'complex': 'value:complex', 'repr-ref': 'value:repr-looks-like-reference', 'repr-refcall': 'value:repr-looks-like-reference',
                 'repr-macro': 'value:repr-looks-like-reference', 'repr-unbalanced': 'value:repr-unbalanced', 'repr-unterminated': 'value:repr-unbalanced',
                 'repr-string': 'value:repr-looks-like-string', 'repr-junk': 'value:repr-unbalanced', 'repr-empty': 'value:repr-unbalanced',
                 'repr-newline': 'value:repr-unbalanced', 'eq-literal-repr-trailing': 'value:equal-to-literal-but-repr-is-not-one',
                 'eq-literal-repr-injects': 'value:equal-to-literal-but-repr-is-not-one', 'repr-raises': 'value:repr-raises'}


def setup(ctx):
  import gin
  P = {}

  def mk(name, module, shape='fn', api='external', cls_name=None):
    P[(module, name)] = probes.build({'shape': shape, 'api': api, 'name': name, 'module': module, 'pos': [], 'dflt': [['x', 0], ['y', 0], ['Z', 0], ['z', 0]],
                                      'varargs': False, 'kwonly': [], 'varkw': True, 'cls_name': cls_name})
  mk('c6a', 'c6.m1')
  mk('c6a', 'c6.m2')        # same base name: minimal selector needs a module part
  mk('c6a', 'c6.deep.m1')   # and a deeper one sharing the suffix m1.c6a
  mk('c6b', 'c6.m1')
  mk('C6B', 'c6.m1')        # case variant of c6b
  mk('c6c', 'c6', api='configurable')
  mk('c6m', 'c6.m1', shape='method', cls_name='C6K')
  mk('c6m', 'c6.m2', shape='method', cls_name='C6K')     # an equally named method of an equally named class in another module
  _S['P'] = P
  _S['targets'] = ['c6.m1.c6a', 'c6.m2.c6a', 'c6.deep.m1.c6a', 'c6.m1.c6b', 'c6.m1.C6B', 'c6.c6c', 'METHOD', 'METHOD2']
  _S['method'] = P[('c6.m1', 'c6m')]
  _S['method2'] = P[('c6.m2', 'c6m')]


def gen_val(rng):
  """value spec: ['lit', v] | ['ref', text] | ['macro', name] | ['non', kind] | ['in', container-kind, spec]"""
  r = rng.random()
  if r < 0.5:
    v = gen.gen_value(rng, depth=rng.choice([0, 1, 2, 3]))
    if rng.random() < 0.12:
      v = ' '.join(rng.choice(['lorem', 'ipsum', "qu'ote", 'dol"or', 'x' * 30]) for _ in range(rng.choice([12, 30, 60])))
    return ['lit', v]
  if r < 0.68:
    return ['ref', rng.choice(['@c6b', '@c6b()', '@s/c6b()', '@m2.c6a', '@c6.m1.c6a()', '@a/b/c6c', '@C6B()'])]
  if r < 0.76:
    return ['macro', rng.choice(['c6mac', 'C6MAC', 'sc/c6mac2'])]
  if r < 0.9:
    return ['non', rng.choice(sorted(NONLIT))]
  inner = gen_val(rng)
  return ['in', rng.choice(['list', 'tuple', 'dict']), inner]


def iter_cases(ctx, rng, n):
  from vf.checks import c19
  dyn = c19.iter_cases(ctx, rng, n)
  for i in range(n):
    if i % 16 == 5:
      yield {'late_registration': rng.randrange(1 << 30), 'mll': rng.choice([80, 20]), 'scope': rng.choice(['', 'sc'])}
      continue
    if i % 8 == 7:
      # "with or without dynamic registration": a dynamic-registration configuration on a freshly generated package (machinery of C19):
      # config_str must re-parse to the same deliveries and reproduce the text
      c = next(dyn)
      while c['kind'] != 'bindings':
        c = next(dyn)
      yield {'dynamic': c}
      continue
    nb = rng.choice([1, 2, 3, 5, 8, 12])
    binds = {}
    for _ in range(nb):
      tgt = rng.choice(_S['targets'])
      scope = rng.choice(['', '', 'a', 'A', 'a/b', 'A/b', 'a/B', 'train', 'Train', 'x/y/z'])
      prm = rng.choice(['x', 'y', 'z', 'Z', 'extra_kw'])
      binds[(scope, tgt, prm)] = gen_val(rng)
    macros = {}
    for m in rng.sample(['c6mac', 'C6MAC', 'sc/c6mac2', 'c6other'], rng.choice([0, 1, 2, 3])):
      macros[m] = gen_val(rng) if rng.random() < 0.7 else ['non', rng.choice(sorted(NONLIT))]
    items = [['b', list(k), v] for k, v in binds.items()] + [['m', k, v] for k, v in macros.items()]
    imports = rng.sample(['import os', 'import os.path', 'from os import path', 'import json as js', 'from collections import abc as cabc',
                          'import collections.abc', 'from json import decoder', 'import string'], rng.choice([0, 0, 1, 2, 4]))
    mll = rng.choice([80, 80, 200, 40, 20, 10, 5, 2, 1])
    ci = rng.choice([c for c in [4, 4, 0, 1, 8, mll - 1] if 0 <= c < mll])
    perms = []
    for _ in range(rng.choice([2, 2, 3, 4])):
      order = list(range(len(items)))
      rng.shuffle(order)
      perms.append([order, [rng.random() < 0.5 for _ in items]])
    yield {'items': items, 'imports': imports, 'mll': mll, 'ci': ci, 'perms': perms}


def value_of(spec, cache):
  from gin import config as gc
  k = spec[0]
  if k == 'lit':
    return spec[1]
  if k == 'ref':
    return gc.parse_value(spec[1])
  if k == 'macro':
    return gc.parse_value('%' + spec[1])
  if k == 'non':
    key = id(spec)
    if key not in cache:
      cache[key] = NONLIT[spec[1]]()
    return cache[key]
  inner = value_of(spec[2], cache)
  return {'list': [1, inner], 'tuple': (inner,), 'dict': {'k': inner, 'j': [inner]}}[spec[1]]


def text_of(spec):
  k = spec[0]
  if k == 'lit':
    return repr(spec[1]) if lit_representable(spec[1]) else None
  if k == 'ref':
    return spec[1]
  if k == 'macro':
    return '%' + spec[1]
  if k == 'non':
    return None
  inner = text_of(spec[2])
  if inner is None:
    return None
  return {'list': '[1, %s]', 'tuple': '(%s,)', 'dict': "{'k': %s, 'j': [%s]}"}[spec[1]] % ((inner,) if spec[1] != 'dict' else (inner, inner))


def lit_representable(v):
  t = type(v)
  if t in (int, str, bytes, bool, type(None)):
    return True
  if t is float:
    return math.isfinite(v)
  if t is complex:
    return '(' not in repr(v) and math.isfinite(v.imag)
  if t in (list, tuple):
    return all(lit_representable(x) for x in v)
  if t is dict:
    return all(lit_representable(k) and lit_representable(x) for k, x in v.items())
  return False


def spec_representable(spec):
  k = spec[0]
  if k == 'lit':
    return lit_representable(spec[1])
  if k in ('ref', 'macro'):
    return True
  if k == 'non':
    return False
  return spec_representable(spec[2])


def spec_feats(spec, out):
  k = spec[0]
  if k == 'lit':
    if isinstance(spec[1], str) and len(spec[1]) > 100:
      out.add('value:long-string')
    if gen.depth_of(spec[1]) >= 2:
      out.add('value:nested')
    if 'complex' in gen.kinds_in(spec[1]):
      out.add('value:complex')
  elif k == 'ref':
    out.add('value:reference')
  elif k == 'macro':
    out.add('value:macro-ref')
  elif k == 'non':
    out.add(NONLIT_BUCKET[spec[1]])
  else:
    spec_feats(spec[2], out)
  return out


def target_selector(tgt):
  if tgt == 'METHOD':
    return _S['method'].selector
  if tgt == 'METHOD2':
    return _S['method2'].selector
  return tgt


def apply_items(gin, case, order, use_text, cache):
  for stmt in case['imports']:
    gin.parse_config(stmt)
  for idx, pos in enumerate(order):
    kind, key, spec = case['items'][pos]
    val = value_of(spec, cache)
    txt = text_of(spec)
    if kind == 'm':
      if use_text[idx] and txt is not None:
        gin.parse_config('%s = %s' % (key, txt))
      else:
        gin.bind_parameter((key, 'gin.macro', 'value'), val)
    else:
      scope, tgt, prm = key
      sel = target_selector(tgt)
      if use_text[idx] and txt is not None:
        gin.parse_config('%s%s.%s = %s' % (scope + '/' if scope else '', sel, prm, txt))
      else:
        gin.bind_parameter((scope, sel, prm), val)


def run_case(ctx, case):
  import gin
  from gin import config as gc
  if 'late_registration' in case:
    return run_late_registration(ctx, case)
  if 'dynamic' in case:
    from vf.checks import c19
    if 'tree' not in c19._S:
      c19.setup(ctx)
    ctx.bucket('registration:dynamic')
    before = dict(ctx.params)
    ctx.params.setdefault('fresh_process_every', 10 ** 9)
    c19.run_bindings(ctx, case['dynamic'])
    return
  mll, ci = case['mll'], case['ci']
  cache = {}
  feats = set()
  for kind, key, spec in case['items']:
    spec_feats(spec, feats)
    if kind == 'm':
      feats.add('macro:literal' if spec_representable(spec) else 'macro:nonliteral')
  scopes = {k[1][0] for k in case['items'] if k[0] == 'b'}
  if any(a != b and a.lower() == b.lower() for a in scopes for b in scopes):
    feats.add('name:case-variant-scope')
  tg = {k[1][1] for k in case['items'] if k[0] == 'b'}
  if {'c6.m1.c6b', 'c6.m1.C6B'} <= tg:
    feats.add('name:case-variant-configurable')
  if any(t.endswith('c6a') for t in tg):
    feats.add('name:module-qualified-needed')
  if 'METHOD' in tg:
    feats.add('name:method')
  ms = {k[1] for k in case['items'] if k[0] == 'm'}
  if {'c6mac', 'C6MAC'} <= ms:
    feats.add('name:case-variant-macro')
  feats.add('width:tiny' if mll <= 10 else ('width:default' if mll == 80 else 'width:other'))
  if ci == 0:
    feats.add('width:indent0')
  if case['imports']:
    feats.add('imports:present')
    if any(i.startswith('from') for i in case['imports']):
      feats.add('imports:from')
    if any(' as ' in i for i in case['imports']):
      feats.add('imports:alias')
  if len(case['perms']) >= 3:
    feats.add('perm:3+')
  for f in feats:
    ctx.bucket(f)
  ctx.fp(tuple(sorted(feats)), len(case['items']), mll, ci, len(case['imports']))

  texts = []
  for order, use_text in case['perms']:
    gin.clear_config()
    apply_items(gin, case, order, use_text, cache)
    ctx.bucket('api:text' if any(use_text) else 'api:bind_parameter')
    ctx.bucket('api:bind_parameter' if not all(use_text) else 'api:text')
    try:
      s = gin.config_str(mll, ci)
    except Exception as e:  # pylint: disable=broad-except
      kinds = sorted({sp[1] for _, _, sp in flat_specs(case) if sp[0] == 'non'})
      ctx.check(False, 'config-str-raises', 'config_str(%d, %d) raised %s: %s (non-literal kinds present: %r)' %
                (mll, ci, type(e).__name__, str(e)[:200], kinds))
      return
    texts.append(s)
  ctx.count('permutations_compared')
  for i in range(1, len(texts)):
    if texts[i] != texts[0]:
      key = 'text-depends-on-binding-order'
      if only_line_order_differs(texts[0], texts[i]) and case_has_unorderable_dict(case):
        key = 'dict-with-unorderable-keys-printed-in-object-id-order'
      ctx.check(False, key, 'config_str differs between two orders of the same binding set:\n--- order A\n%s\n--- order B\n%s' %
                (texts[0][:1200], texts[i][:1200]))
      break
  else:
    ctx.count('oracle_evals')
  s = texts[-1]
  ctx.sample({'mll': mll, 'ci': ci, 'config_str': s[:900]}, cap=3)
  if any('\\' == l[-1:] for l in s.splitlines()):
    ctx.bucket('wrapped:continuation-line')

  # (c) ordering inside the text
  headers = [HDR.match(l).group(1) for l in s.splitlines() if HDR.match(l)]
  names = []
  for h in headers:
    sel = h.rpartition('/')[2]
    try:
      ent = gc._REGISTRY.get_match(sel)
    except KeyError:
      ent = None
    if not ctx.check(ent is not None, 'header-does-not-resolve', 'section header %r does not resolve uniquely' % h):
      return
    full = ent.selector.split('.')
    names.append(('.'.join(full[-2:]) if ent.is_method else full[-1]).lower())
  ctx.check(names == sorted(names), 'sections-not-alphabetical', 'sections not grouped alphabetically by innermost name: %r' % names)
  # parameters sorted within each section (statement order as read back by the real parser)
  try:
    _, _, _, order = snap.parse_text(s)
  except Exception:  # pylint: disable=broad-except
    order = []  # unparseable text is reported by the round-trip oracle below
  groups = []
  for (sc, sel, arg) in order:
    if not arg:
      continue
    if groups and groups[-1][0] == (sc, sel):
      groups[-1][1].append(arg)
    else:
      groups.append(((sc, sel), [arg]))
  for key, args in groups:
    ctx.check(args == sorted(args), 'parameters-not-sorted', 'section %r lists parameters %r' % (key, args))

  # (d) markdown keeps every binding line verbatim, in order
  md = gin.config.markdown(s).splitlines()
  pos = 0
  ok = True
  for l in s.splitlines():
    if l.startswith('#') or not l.strip():
      continue
    want = '    ' + l
    try:
      pos = md.index(want, pos) + 1
    except ValueError:
      ok = False
      break
  ctx.count('markdown_checked')
  ctx.check(ok, 'markdown-drops-binding-line', 'markdown() lost or reordered line %r' % (l,))

  # (a) round trip
  imports_before = sorted({st.module for st in gc._IMPORTS})
  exp = {}
  for kind, key, spec in case['items']:
    if not spec_representable(spec):
      ctx.bucket('omitted:nonrepresentable')
      continue
    v = value_of(spec, cache)
    if kind == 'm':
      exp[(key, 'gin.macro', 'value')] = canon(v, ordered=False)
    else:
      exp[(key[0], target_selector(key[1]), key[2])] = canon(v, ordered=False)
  gin.clear_config()
  try:
    gin.parse_config(s)
  except Exception as e:  # pylint: disable=broad-except
    nonlit_macro = any(k == 'm' and not spec_representable(sp) for k, _, sp in case['items'])
    ctx.check(False, 'config-str-does-not-parse' + (':nonliteral-macro-emitted' if nonlit_macro and 'Macros' in s else ''),
              'parse_config(config_str()) failed with %s: %s\n%s' % (type(e).__name__, str(e)[:300], s[:1200]))
    return
  ctx.count('roundtrips')
  ctx.bucket('roundtrip:done')
  got = {}
  for (sc, sel), d in gc._CONFIG.items():
    for prm, v in d.items():
      got[(sc, sel, prm)] = canon(v, ordered=False)
  if got != exp:
    d = snap.diff(got, exp)
    ctx.check(False, 'roundtrip-differs', 'after re-parsing config_str (restored, expected representable subset): %r' % ({k: d[k] for k in list(d)[:5]},), {'text': s[:1500]})
  else:
    ctx.count('oracle_evals')
  ctx.check(sorted({st.module for st in gc._IMPORTS}) == imports_before, 'imports-not-preserved',
            'recorded import modules before %r after %r' % (imports_before, sorted({st.module for st in gc._IMPORTS})))
  try:
    s2 = gin.config_str(mll, ci)
  except Exception as e:  # pylint: disable=broad-except
    ctx.check(False, 'config-str-raises', 'config_str after round trip raised %r' % (e,))
    return
  if s2 != s:
    key = 'reserialisation-differs'
    t2 = s2.split('\n')
    while t2 and t2[-1] == '':
      t2.pop()
    a, b = '\n'.join(strip_none_sections(s)), '\n'.join(t2)
    if a == b and '# None.' in s:
      key = 'empty-section-of-nonrepresentable-only-bindings-not-reproduced'
    elif only_line_order_differs(a, b) and case_has_unorderable_dict(case):
      key = 'dict-with-unorderable-keys-printed-in-object-id-order'
    ctx.check(False, key, 'serialising again after the round trip differs:\n%s\n---\n%s' % (s[:800], s2[:800]))
  else:
    ctx.count('oracle_evals')


def run_late_registration(ctx, case):
  """config_str() is taken, then another configurable with the same base name is registered: the next config_str() must still parse."""
  import gin
  from gin import config as gc
  gin.clear_config()
  ctx.bucket('history:registration-after-config_str')
  name = 'c6late%d_%s' % (case['late_registration'] % 100000, ctx.uid)

  def mk(tag):
    def fn(x=0):
      return (tag, x)
    fn.__name__ = name
    return fn
  f1 = gin.external_configurable(mk('one'), name, module='c6x.vision.models')
  pre = case['scope'] + '/' if case['scope'] else ''
  gin.parse_config('%s%s.x = 64\nc6c.x = @%s()\n' % (pre, name, name))
  s1 = gin.config_str(case['mll'])
  f2 = gin.external_configurable(mk('two'), name, module='c6x.audio.models')     # the short name is ambiguous from now on
  s2 = gin.config_str(case['mll'])
  for label, text in (('before', s1), ('after', s2)):
    if label == 'before':
      continue  # the earlier text legitimately used the then-unique short name
    store = snap.store_nonempty(gc)
    gin.clear_config()
    try:
      gin.parse_config(text)
      ctx.check(snap.store_nonempty(gc) == store, 'roundtrip-differs', 'config_str taken after a same-named configurable was registered restores %r, expected %r' %
                (snap.store_nonempty(gc), store))
      ctx.check(gin.config_str(case['mll']) == text, 'reserialisation-differs', 'not idempotent after late registration')
    except Exception as e:  # pylint: disable=broad-except
      ctx.check(False, 'config-str-does-not-parse', 'config_str() taken after registering another %r does not parse: %s: %s\n%s' % (name, type(e).__name__, str(e)[:200], text))
  ctx.count('roundtrips')
  ctx.fp('late-registration', case['mll'], case['scope'])
  gin.clear_config()


def finish(ctx):
  from vf.checks import c19
  if 'tree' in c19._S:
    c19._S['tree'].cleanup()


def strip_none_sections(text):
  """Drop '# Parameters for X: / ==== / # None. / <blank>' blocks (sections with nothing representable)."""
  lines = text.split('\n')
  out, i = [], 0
  while i < len(lines):
    if HDR.match(lines[i]) and i + 2 < len(lines) and lines[i + 1].startswith('# ') and set(lines[i + 1][2:]) <= {'='} and lines[i + 2] == '# None.':
      i += 4 if (i + 3 < len(lines) and lines[i + 3] == '') else 3
      continue
    out.append(lines[i])
    i += 1
  while out and out[-1] == '':
    out.pop()
  return out


def has_unorderable_dict(v):
  if type(v) is dict:
    try:
      sorted(v)
    except TypeError:
      return True
    return any(has_unorderable_dict(k) or has_unorderable_dict(x) for k, x in v.items())
  if type(v) in (list, tuple):
    return any(has_unorderable_dict(x) for x in v)
  return False


def case_has_unorderable_dict(case):
  return any(sp[0] == 'lit' and has_unorderable_dict(sp[1]) for _, _, sp in flat_specs(case))


def only_line_order_differs(a, b):
  """True iff two config texts spell the same statements in the same order and differ only in the order of dict items."""
  if a == b:
    return False
  try:
    ba, ia, _, oa = snap.parse_text(a)
    bb, ib, _, ob = snap.parse_text(b)
  except Exception:  # pylint: disable=broad-except
    return False
  if oa != ob or ia != ib:
    return False
  if [l for l in a.split('\n') if l.startswith('#')] != [l for l in b.split('\n') if l.startswith('#')]:
    return False
  return all(canon(ba[k], ordered=False) == canon(bb[k], ordered=False) for k in ba)


def flat_specs(case):
  out = []
  for kind, key, spec in case['items']:
    sp = spec
    while sp[0] == 'in':
      sp = sp[2]
    out.append((kind, key, sp))
  return out


LEVEL_TEXT = ('Runtime metamorphic monitor over pairs of executions: the same generated binding set is applied in 2-4 orders (text and programmatic), '
              'config_str(w, ci) must be identical across orders, must parse on a cleared configuration restoring exactly the representable subset '
              '(own classifier, typed equality), must be reproduced by re-serialisation, must keep sections/parameters sorted and markdown() must keep '
              'every binding line; hostile values include objects whose repr looks like references, unbalanced brackets or strings.')
LEVEL_NOTE = ('Trusted: own representability classifier and typed equality (dict order ignored: pprint sorts keys). Dynamic-registration round trips are in C19. '
              'Objects that compare equal to a literal of another type are not generated.')
TECHNIQUE = 'runtime metamorphic monitor (permutation vs permutation, text vs re-parse vs re-serialisation) with hostile non-literal values'
DESIGN_REF = 'DESIGN.md section 4, C06'
