"""C06 — the config string round-trips, is canonical and always parses."""
import atexit
import importlib
import math
import os
import re
import shutil
import tempfile

from vf import gen, pkgtree, probes, snap
from vf.teq import canon

ID = 'C06'
LEVEL = 'exploration'
RULE = ('configurations built from a random binding set (literal value trees incl. long strings, long bytes and long strings inside containers, nested containers, '
        'references incl. references to methods, classes and gin.singleton, macros, constants (two sharing a base name, partial spellings, %gin.REQUIRED and the '
        'gin.REQUIRED object), scoped and module-qualified names with colliding base names, registered methods, a class and gin.singleton as targets, case-variant '
        'scopes/names, non-literal values: objects, lambdas, sets, nan/inf, complex, custom reprs that look like @x, %x, "(1, 2", \'abc\'; non-literal macro values) '
        'applied by parse text or bind_parameter in 2-4 random orders, some keys bound twice (the earlier value at a random earlier point, also one equal to the final '
        'value but of another type), stdlib imports in four forms, random (max_line_length > continuation_indent >= 0); the same set read by parse_config_file from a '
        'file including another file and serialised with show_provenance=True; 1/8 of the cases on a freshly generated package under dynamic registration (four import '
        'forms per module, value shapes as above, references to dynamically registered objects, macros, programmatic bindings after the parse, decorator-registered '
        'configurables bound programmatically, 2-3 orders, random widths) and 1/8 through the machinery of C19. Oracles: (a) config_str parses on a cleared config and '
        'restores exactly the model\'s representable subset (own classifier), import statements preserved (module, from/plain form, alias), re-serialisation '
        'identical; (b) identical text for every permutation / history / files; (c) parameters sorted inside sections, sections non-decreasing in the case-folded '
        'innermost name, one section per configurable; (d) markdown() keeps every binding line verbatim; (e) the text with provenance comments parses to the same '
        'Dynamic registration: two configurables that occur only in values, registered by equally named modules the config never imports, bound in both orders. '
        'configuration. distinct = (value-kind set, name features, width class, import forms)')
TIERS = {
    'quick': {'workers': 8, 'cases': 700, 'timeout': 600},
    'thorough': {'workers': 16, 'cases': 9000, 'timeout': 3000},
}
# further workloads for the property's online monitor (vf/online.py): the repository's tests and other checks' generated cases
ONLINE = {'which': ['rt'], 'rt_classify': True, 'foreign': ['C01', 'C04', 'C05', 'C07', 'C10', 'C11', 'C12', 'C17', 'C20'], 'n': {'quick': 30, 'thorough': 400}}
REQUIRED_BUCKETS = ['value:long-string', 'value:nested', 'value:reference', 'value:macro-ref', 'value:nonliteral-object', 'value:nonliteral-set', 'value:nan-inf',
                    'value:repr-looks-like-reference', 'value:repr-unbalanced', 'value:repr-looks-like-string', 'value:equal-to-literal-but-repr-is-not-one', 'value:repr-raises', 'value:complex', 'macro:literal', 'macro:nonliteral',
                    'name:module-qualified-needed', 'name:method', 'name:case-variant-scope', 'name:case-variant-configurable', 'name:case-variant-macro',
                    'width:tiny', 'width:indent0', 'width:default', 'imports:present', 'imports:from', 'imports:alias', 'perm:3+', 'roundtrip:done',
                    'omitted:nonrepresentable', 'api:bind_parameter', 'api:text', 'registration:dynamic', 'history:registration-after-config_str',
                    # imports: the statements themselves (module, from/plain form, alias) are compared, not only the module names
                    'imports:form-compared',
                    # constants, gin.REQUIRED, references to methods / classes / gin.singleton, class and gin.singleton sections
                    'value:constant', 'value:constant-base-name-shared-by-two', 'value:constant-partial-spelling', 'value:gin-required-reference',
                    'value:gin-required-object', 'value:reference-to-method', 'value:reference-to-class', 'value:reference-to-singleton',
                    'name:class-target', 'name:singleton-target',
                    # values pformat splits over lines
                    'value:long-bytes', 'value:long-string-in-container',
                    # histories: a key bound twice (the earlier value must leave no trace), files + include, provenance comments
                    'history:rebound-key', 'history:rebound-representable-after-nonrepresentable', 'history:rebound-nonrepresentable-after-representable',
                    'history:rebound-equal-value-of-another-type',
                    'api:parse_config_file', 'api:include', 'provenance:shown',
                    # dynamic registration crossed with the rest (own generator on a generated package)
                    'dyn:nonrepresentable-omitted', 'dyn:orders-compared', 'dyn:macro', 'dyn:reference', 'dyn:width-tiny', 'dyn:width-other', 'dyn:indent0',
                    'dyn:roundtrip', 'dyn:programmatic-binding', 'dyn:static-configurable-bound-programmatically', 'dyn:static-configurable-module-not-imported-by-text',
                    'dyn:imports-form-compared', 'dyn:method', 'dyn:nested-value']
ORACLE_COUNTERS = ['oracle_evals', 'roundtrips', 'permutations_compared', 'markdown_checked', 'dyn_roundtrips', 'provenance_roundtrips']
_S = {}
HDR = re.compile(r'^# Parameters for (.+):$')


class ReprLike:
  """An object whose repr mimics some literal text but which is not that literal."""

  def __init__(self, text):
    self.text = text

  def __repr__(self):
    return self.text


class EqFloat(float):
  """Equal to a literal, but printed with a unit: the repr merely *starts* with that literal."""

  def __repr__(self):
    return '1.5 deg'


class EqIntInjecting(int):
  """Equal to a literal; the repr continues on a new line with what looks like another statement."""

  def __repr__(self):
    return '1\nc6.c6c.Z = 666'


class ReprRaises:

  def __repr__(self):
    raise RuntimeError('this object has no repr')


def _gin_required():
  import gin
  return gin.REQUIRED


# constants: two share the base name C6KONST (so `%C6KONST` alone is ambiguous and the text must spell the module part), one value has no literal form
# (a *reference* to it is still a literal: `%c6k.aa.C6OBJ`)
CONSTS = {'c6k.aa.C6KONST': 7, 'c6k.bb.C6KONST': (1, 'two'), 'c6k.aa.C6UNIQ': 2.5, 'c6k.aa.C6OBJ': object()}
CONST_SPELLINGS = ['c6k.aa.C6KONST', 'aa.C6KONST', 'bb.C6KONST', 'c6k.bb.C6KONST', 'C6UNIQ', 'aa.C6UNIQ', 'c6k.aa.C6OBJ', 'C6OBJ', 'gin.REQUIRED']


def ensure_consts():
  import gin
  for name, v in CONSTS.items():
    try:
      gin.constant(name, v)
    except ValueError:
      pass      # defined already in this process


NONLIT = {
    'object': lambda: object(),
    'lambda': lambda: (lambda: 0),
    'set': lambda: {1, 2},
    'nan': lambda: float('nan'),
    'inf': lambda: float('-inf'),
    'complex': lambda: 1 + 2j,
    'repr-ref': lambda: ReprLike('@c6_unknown_configurable'),
    'repr-refcall': lambda: ReprLike('@c6a()'),
    'repr-macro': lambda: ReprLike('%c6_some_macro'),
    'repr-unbalanced': lambda: ReprLike('(1, 2'),
    'repr-unterminated': lambda: ReprLike("'abc"),
    'repr-string': lambda: ReprLike("'abc'"),
    'repr-junk': lambda: ReprLike('1 2 $'),
    'repr-empty': lambda: ReprLike(''),
    'repr-newline': lambda: ReprLike('1\nc6a.x = 2'),
    'eq-literal-repr-trailing': lambda: EqFloat(1.5),
    'eq-literal-repr-injects': lambda: EqIntInjecting(1),
    'repr-raises': lambda: ReprRaises(),
    'gin-required-object': _gin_required,     # gin.REQUIRED bound programmatically (the object, not the reference %gin.REQUIRED)
}
NONLIT_BUCKET = {'object': 'value:nonliteral-object', 'lambda': 'value:nonliteral-object', 'set': 'value:nonliteral-set', 'nan': 'value:nan-inf', 'inf': 'value:nan-inf',
                 'complex': 'value:complex', 'repr-ref': 'value:repr-looks-like-reference', 'repr-refcall': 'value:repr-looks-like-reference',
                 'repr-macro': 'value:repr-looks-like-reference', 'repr-unbalanced': 'value:repr-unbalanced', 'repr-unterminated': 'value:repr-unbalanced',
                 'repr-string': 'value:repr-looks-like-string', 'repr-junk': 'value:repr-unbalanced', 'repr-empty': 'value:repr-unbalanced',
                 'repr-newline': 'value:repr-unbalanced', 'eq-literal-repr-trailing': 'value:equal-to-literal-but-repr-is-not-one',
                 'eq-literal-repr-injects': 'value:equal-to-literal-but-repr-is-not-one', 'repr-raises': 'value:repr-raises',
                 'gin-required-object': 'value:gin-required-object'}


def setup(ctx):
  import gin
  P = {}

  def mk(name, module, shape='fn', api='external', cls_name=None):
    P[(module, name)] = probes.build({'shape': shape, 'api': api, 'name': name, 'module': module, 'pos': [], 'dflt': [['x', 0], ['y', 0], ['Z', 0], ['z', 0]],
                                      'varargs': False, 'kwonly': [], 'varkw': True, 'cls_name': cls_name})
  mk('c6a', 'c6.m1')
  mk('c6a', 'c6.m2')        # same base name: minimal selector needs a module part
  mk('c6a', 'c6.deep.m1')   # and a deeper one sharing the suffix m1.c6a
  mk('c6b', 'c6.m1')
  mk('C6B', 'c6.m1')        # case variant of c6b
  mk('c6c', 'c6', api='configurable')
  mk('c6m', 'c6.m1', shape='method', cls_name='C6K')
  mk('c6m', 'c6.m2', shape='method', cls_name='C6K')     # an equally named method of an equally named class in another module
  mk('C6Cls', 'c6.m2', shape='init', api='configurable')  # a class as the target of bindings and of references
  ensure_consts()
  _S['P'] = P
  # SINGLETON = gin's own configurable gin.singleton (parameter `constructor`, always bound in a scope)
  _S['targets'] = ['c6.m1.c6a', 'c6.m2.c6a', 'c6.deep.m1.c6a', 'c6.m1.c6b', 'c6.m1.C6B', 'c6.c6c', 'METHOD', 'METHOD2', 'c6.m2.C6Cls', 'SINGLETON']
  _S['method'] = P[('c6.m1', 'c6m')]
  _S['method2'] = P[('c6.m2', 'c6m')]


REFS = ['@c6b', '@c6b()', '@s/c6b()', '@m2.c6a', '@c6.m1.c6a()', '@a/b/c6c', '@C6B()']
REFS_METHOD = ['@c6.m1.C6K.c6m', '@m2.C6K.c6m', '@s/m1.C6K.c6m']          # a method is referenced without being called
REFS_CLASS = ['@C6Cls()', '@c6.m2.C6Cls', '@x/C6Cls()']
REFS_SINGLETON = ['@sh/gin.singleton()', '@sh2/singleton()']
EQUAL_TWINS = [(1, True), (True, 1), (0, False), (False, 0.0), (1.0, 1), (0, 0.0), (-0.0, 0.0), (0.0, -0.0), ((1, 2), (1.0, 2)), ([True], [1]), ({'k': 0}, {'k': False})]
WORDS = ['lorem', 'ipsum', "qu'ote", 'dol"or', 'x' * 30]


def gen_long(rng):
  """Values pprint.pformat breaks over several lines: bytes longer than a few characters, long strings inside containers."""
  def words(n):
    return ' '.join(rng.choice(WORDS + ['n\xe9☃', 'a\nb', '#c', '\\']) for _ in range(n))
  lb = bytes(rng.randrange(256) for _ in range(rng.choice([8, 9, 16, 33, 70])))
  k = rng.randrange(6)
  if k == 0:
    return lb
  if k == 1:
    return [words(20), lb]
  if k == 2:
    return {'k': (words(30),), 'b': lb}
  if k == 3:
    return (words(12), [words(25)])
  if k == 4:
    return {words(10): lb, lb: words(3)}
  return [lb, [lb + lb, {'deep': [words(40)]}]]


def gen_val(rng):
  """value spec: ['lit', v] | ['ref', text] | ['macro', name] | ['const', spelling] | ['non', kind] | ['in', container-kind, spec]"""
  r = rng.random()
  if r < 0.47:
    v = gen.gen_value(rng, depth=rng.choice([0, 1, 2, 3]))
    q = rng.random()
    if q < 0.12:
      v = ' '.join(rng.choice(WORDS) for _ in range(rng.choice([12, 30, 60])))
    elif q < 0.22:
      v = gen_long(rng)
    return ['lit', v]
  if r < 0.66:
    return ['ref', rng.choice(REFS if rng.random() < 0.55 else REFS_METHOD + REFS_CLASS + REFS_SINGLETON)]
  if r < 0.73:
    return ['macro', rng.choice(['c6mac', 'C6MAC', 'sc/c6mac2'])]
  if r < 0.79:
    return ['const', rng.choice(CONST_SPELLINGS)]
  if r < 0.91:
    return ['non', rng.choice(sorted(NONLIT))]
  inner = gen_val(rng)
  return ['in', rng.choice(['list', 'tuple', 'dict']), inner]


def iter_cases(ctx, rng, n):
  from vf.checks import c19
  dyn = c19.iter_cases(ctx, rng, n)
  for i in range(n):
    if i % 16 == 5:
      yield {'late_registration': rng.randrange(1 << 30), 'mll': rng.choice([80, 20]), 'scope': rng.choice(['', 'sc'])}
      continue
    if i % 8 == 7:
      # "with or without dynamic registration": a dynamic-registration configuration on a freshly generated package (machinery of C19):
      # config_str must re-parse to the same deliveries and reproduce the text
      c = next(dyn)
      while c['kind'] != 'bindings':
        c = next(dyn)
      yield {'dynamic': c}
      continue
    if i % 8 == 3:
      # dynamic registration crossed with the rest of the quantifier (value shapes, orders, widths, macros, programmatic bindings)
      yield {'dyn2': gen_dyn2(rng)}
      continue
    nb = rng.choice([1, 2, 3, 5, 8, 12])
    binds = {}
    for _ in range(nb):
      tgt = rng.choice(_S['targets'])
      scope = rng.choice(['', '', 'a', 'A', 'a/b', 'A/b', 'a/B', 'train', 'Train', 'x/y/z'])
      prm = rng.choice(['x', 'y', 'z', 'Z', 'extra_kw'])
      if tgt == 'SINGLETON':
        scope, prm = rng.choice(['sh', 'sh2', 'a/sh', 'Sh']), 'constructor'
      binds[(scope, tgt, prm)] = gen_val(rng)
    macros = {}
    for m in rng.sample(['c6mac', 'C6MAC', 'sc/c6mac2', 'c6other'], rng.choice([0, 1, 2, 3])):
      macros[m] = gen_val(rng) if rng.random() < 0.7 else ['non', rng.choice(sorted(NONLIT))]
    items = [['b', list(k), v] for k, v in binds.items()] + [['m', k, v] for k, v in macros.items()]
    imports = rng.sample(['import os', 'import os.path', 'from os import path', 'import json as js', 'from collections import abc as cabc',
                          'import collections.abc', 'from json import decoder', 'import string'], rng.choice([0, 0, 1, 2, 4]))
    mll = rng.choice([80, 80, 200, 40, 20, 10, 5, 2, 1])
    ci = rng.choice([c for c in [4, 4, 0, 1, 8, mll - 1] if 0 <= c < mll])
    # re-binding histories: some keys are first bound to another value (at a random earlier point of every order); the last binding wins
    pre = {}
    if rng.random() < 0.4:
      for pos in rng.sample(range(len(items)), rng.choice([1, 1, 2, len(items)]) if len(items) > 1 else 1):
        pre[str(pos)] = gen_val(rng)
        if rng.random() < 0.3:
          # the earlier value is equal (==) to the final one but of another type / sign: it must be replaced all the same
          a, b = rng.choice(EQUAL_TWINS)
          pre[str(pos)], items[pos][2] = ['lit', a], ['lit', b]
    perms = []
    for _ in range(rng.choice([2, 2, 3, 4])):
      order = list(range(len(items)))
      rng.shuffle(order)
      perms.append([order, [rng.random() < 0.5 for _ in items], [rng.random() for _ in items]])
    case = {'items': items, 'imports': imports, 'mll': mll, 'ci': ci, 'perms': perms, 'pre': pre}
    if rng.random() < 0.16:
      # the same binding set read from a file that includes another file, then serialised with provenance comments
      case['via_file'] = {'in_include': [rng.random() < 0.5 for _ in items], 'inc_at': rng.random()}
    yield case


def value_of(spec, cache):
  from gin import config as gc
  k = spec[0]
  if k == 'lit':
    return spec[1]
  if k == 'ref':
    return gc.parse_value(spec[1])
  if k in ('macro', 'const'):
    return gc.parse_value('%' + spec[1])
  if k == 'dref':
    return gc.parse_value('@%s%s%s' % (spec[1] + '/' if spec[1] else '', _S['dyn_selector_of'](spec[2]), '()' if spec[3] else ''))
  if k == 'non':
    key = id(spec)
    if key not in cache:
      cache[key] = NONLIT[spec[1]]()
    return cache[key]
  inner = value_of(spec[2], cache)
  return {'list': [1, inner], 'tuple': (inner,), 'dict': {'k': inner, 'j': [inner]}}[spec[1]]


def text_of(spec):
  k = spec[0]
  if k == 'lit':
    return repr(spec[1]) if lit_representable(spec[1]) else None
  if k == 'ref':
    return spec[1]
  if k in ('macro', 'const'):
    return '%' + spec[1]
  if k == 'dref':
    return '@%s%s%s' % (spec[1] + '/' if spec[1] else '', _S['dyn_spelling'][spec[2]], '()' if spec[3] else '')
  if k == 'non':
    return None
  inner = text_of(spec[2])
  if inner is None:
    return None
  return {'list': '[1, %s]', 'tuple': '(%s,)', 'dict': "{'k': %s, 'j': [%s]}"}[spec[1]] % ((inner,) if spec[1] != 'dict' else (inner, inner))


def lit_representable(v):
  t = type(v)
  if t in (int, str, bytes, bool, type(None)):
    return True
  if t is float:
    return math.isfinite(v)
  if t is complex:
    return '(' not in repr(v) and math.isfinite(v.imag)
  if t in (list, tuple):
    return all(lit_representable(x) for x in v)
  if t is dict:
    return all(lit_representable(k) and lit_representable(x) for k, x in v.items())
  return False


def spec_representable(spec):
  k = spec[0]
  if k == 'lit':
    return lit_representable(spec[1])
  if k in ('ref', 'macro', 'const', 'dref'):
    return True
  if k == 'non':
    return False
  return spec_representable(spec[2])


def innermost(spec):
  while spec[0] == 'in':
    spec = spec[2]
  return spec


def has_long_bytes(v):
  if type(v) is bytes:
    return len(v) > 7
  if type(v) in (list, tuple):
    return any(has_long_bytes(x) for x in v)
  if type(v) is dict:
    return any(has_long_bytes(k) or has_long_bytes(x) for k, x in v.items())
  return False


def has_long_str_inside(v, top=True):
  if type(v) is str:
    return not top and len(v) > 60
  if type(v) in (list, tuple):
    return any(has_long_str_inside(x, False) for x in v)
  if type(v) is dict:
    return any(has_long_str_inside(k, False) or has_long_str_inside(x, False) for k, x in v.items())
  return False


def spec_feats(spec, out):
  k = spec[0]
  if k == 'lit':
    if isinstance(spec[1], str) and len(spec[1]) > 100:
      out.add('value:long-string')
    if gen.depth_of(spec[1]) >= 2:
      out.add('value:nested')
    if 'complex' in gen.kinds_in(spec[1]):
      out.add('value:complex')
    if has_long_bytes(spec[1]):
      out.add('value:long-bytes')
    if has_long_str_inside(spec[1]):
      out.add('value:long-string-in-container')
  elif k == 'ref':
    out.add('value:reference')
    if spec[1] in REFS_METHOD:
      out.add('value:reference-to-method')
    elif spec[1] in REFS_CLASS:
      out.add('value:reference-to-class')
    elif spec[1] in REFS_SINGLETON:
      out.add('value:reference-to-singleton')
  elif k == 'macro':
    out.add('value:macro-ref')
  elif k == 'const':
    if spec[1] == 'gin.REQUIRED':
      out.add('value:gin-required-reference')
    else:
      out.add('value:constant')
      if spec[1].endswith('C6KONST'):
        out.add('value:constant-base-name-shared-by-two')
      if not spec[1].startswith('c6k.'):
        out.add('value:constant-partial-spelling')
  elif k == 'dref':
    out.add('dyn:reference')
  elif k == 'non':
    out.add(NONLIT_BUCKET[spec[1]])
  else:
    spec_feats(spec[2], out)
  return out


def target_selector(tgt):
  if tgt == 'METHOD':
    return _S['method'].selector
  if tgt == 'METHOD2':
    return _S['method2'].selector
  if tgt == 'SINGLETON':
    return 'gin.singleton'
  return tgt


def statement_text(kind, key, txt):
  if kind == 'm':
    return '%s = %s' % (key, txt)
  scope, tgt, prm = key
  return '%s%s.%s = %s' % (scope + '/' if scope else '', target_selector(tgt), prm, txt)


def bind_one(gin, kind, key, spec, as_text, cache):
  txt = text_of(spec)
  if as_text and txt is not None:
    gin.parse_config(statement_text(kind, key, txt))
  elif kind == 'm':
    gin.bind_parameter((key, 'gin.macro', 'value'), value_of(spec, cache))
  else:
    gin.bind_parameter((key[0], target_selector(key[1]), key[2]), value_of(spec, cache))


def build_ops(case, perm):
  """The binding history of one permutation: every item once in the permuted order, plus, for the keys of case['pre'], an earlier
  binding of the same key to another value at a random point before it."""
  order, use_text = perm[0], perm[1]
  pre_at = perm[2] if len(perm) > 2 else [0.0] * len(order)
  ops = [['final', pos, use_text[idx]] for idx, pos in enumerate(order)]
  for pos_s in sorted(case.get('pre') or {}, key=int):
    pos = int(pos_s)
    j = [i for i, o in enumerate(ops) if o[0] == 'final' and o[1] == pos][0]
    ops.insert(min(int(pre_at[pos] * (j + 1)), j), ['pre', pos, (pre_at[pos] * 7) % 1 < 0.5])
  return ops


def apply_items(gin, case, perm, cache):
  for stmt in case['imports']:
    gin.parse_config(stmt)
  for what, pos, as_text in build_ops(case, perm):
    kind, key, spec = case['items'][pos]
    if what == 'pre':
      spec = case['pre'][str(pos)]
    bind_one(gin, kind, key, spec, as_text, cache)


def import_form(stmt):
  """(module, is_from, alias) of an import statement text, by this file's own reading of the four forms."""
  w = stmt.split()
  alias = w[-1] if len(w) > 2 and w[-2] == 'as' else None
  if w[0] == 'from':
    return (w[1] + '.' + w[3], True, alias)
  return (w[1], False, alias)


def bound_name(form):
  module, is_from, alias = form
  return alias or (module.split('.')[-1] if is_from else module.split('.')[0])


def check_import_forms(ctx, before, after, allowed_extra=(), bucket='imports:form-compared'):
  """`before`/`after`: collections of (module, is_from, alias).  The library may keep one of several recorded forms of a module and re-alias a
  statement whose bound name collides with another module's; a module recorded without such a collision must keep one of its recorded forms."""
  before, after = set(before), set(after)
  mods_b, mods_a = {f[0] for f in before}, {f[0] for f in after}
  ok = ctx.check(mods_b <= mods_a and (allowed_extra is None or mods_a - mods_b <= set(allowed_extra)), 'imports-not-preserved',
                 'recorded import modules before %r after %r' % (sorted(mods_b), sorted(mods_a)))
  names = {}
  for f in before:
    names.setdefault(bound_name(f), set()).add(f[0])
  for m in sorted(mods_b & mods_a):
    forms_b = {f for f in before if f[0] == m}
    if any(len(names[bound_name(f)]) > 1 for f in forms_b):
      continue     # its bound name is also bound by another module's statement: re-aliasing is the library's business
    forms_a = {f for f in after if f[0] == m}
    ctx.bucket(bucket)
    ok = ctx.check(forms_a <= forms_b, 'import-statement-form-not-preserved',
                   'module %s was recorded as %r; after the round trip it is recorded as %r' % (m, sorted(forms_b, key=repr), sorted(forms_a, key=repr))) and ok
  return ok


def run_case(ctx, case):
  import gin
  from gin import config as gc
  if 'late_registration' in case:
    return run_late_registration(ctx, case)
  if 'dyn2' in case:
    return run_dyn2(ctx, case['dyn2'])
  if 'dynamic' in case:
    from vf.checks import c19
    if 'tree' not in c19._S:
      c19.setup(ctx)
    ctx.bucket('registration:dynamic')
    before = dict(ctx.params)
    ctx.params.setdefault('fresh_process_every', 10 ** 9)
    c19.run_bindings(ctx, case['dynamic'])
    return
  ensure_consts()
  mll, ci = case['mll'], case['ci']
  cache = {}
  feats = set()
  for kind, key, spec in case['items']:
    spec_feats(spec, feats)
    if kind == 'm':
      feats.add('macro:literal' if spec_representable(spec) else 'macro:nonliteral')
  scopes = {k[1][0] for k in case['items'] if k[0] == 'b'}
  if any(a != b and a.lower() == b.lower() for a in scopes for b in scopes):
    feats.add('name:case-variant-scope')
  tg = {k[1][1] for k in case['items'] if k[0] == 'b'}
  if {'c6.m1.c6b', 'c6.m1.C6B'} <= tg:
    feats.add('name:case-variant-configurable')
  if any(t.endswith('c6a') for t in tg):
    feats.add('name:module-qualified-needed')
  if 'METHOD' in tg:
    feats.add('name:method')
  if 'c6.m2.C6Cls' in tg:
    feats.add('name:class-target')
  if 'SINGLETON' in tg:
    feats.add('name:singleton-target')
  ms = {k[1] for k in case['items'] if k[0] == 'm'}
  if {'c6mac', 'C6MAC'} <= ms:
    feats.add('name:case-variant-macro')
  feats.add('width:tiny' if mll <= 10 else ('width:default' if mll == 80 else 'width:other'))
  if ci == 0:
    feats.add('width:indent0')
  if case['imports']:
    feats.add('imports:present')
    if any(i.startswith('from') for i in case['imports']):
      feats.add('imports:from')
    if any(' as ' in i for i in case['imports']):
      feats.add('imports:alias')
  if len(case['perms']) >= 3:
    feats.add('perm:3+')
  for pos_s, pspec in (case.get('pre') or {}).items():
    feats.add('history:rebound-key')
    now, was = spec_representable(case['items'][int(pos_s)][2]), spec_representable(pspec)
    if now and not was:
      feats.add('history:rebound-representable-after-nonrepresentable')
    if was and not now:
      feats.add('history:rebound-nonrepresentable-after-representable')
    if pspec[0] == 'lit' and case['items'][int(pos_s)][2][0] == 'lit' and any(
        canon(a) == canon(pspec[1]) and canon(b) == canon(case['items'][int(pos_s)][2][1]) for a, b in EQUAL_TWINS):
      feats.add('history:rebound-equal-value-of-another-type')
  for f in feats:
    ctx.bucket(f)
  ctx.fp(tuple(sorted(feats)), len(case['items']), mll, ci, len(case['imports']))

  texts = []
  for perm in case['perms']:
    use_text = perm[1]
    gin.clear_config()
    apply_items(gin, case, perm, cache)
    ctx.bucket('api:text' if any(use_text) else 'api:bind_parameter')
    ctx.bucket('api:bind_parameter' if not all(use_text) else 'api:text')
    try:
      s = gin.config_str(mll, ci)
    except Exception as e:  # pylint: disable=broad-except
      kinds = sorted({sp[1] for _, _, sp in flat_specs(case) if sp[0] == 'non'})
      ctx.check(False, 'config-str-raises', 'config_str(%d, %d) raised %s: %s (non-literal kinds present: %r)' %
                (mll, ci, type(e).__name__, str(e)[:200], kinds))
      return
    texts.append(s)
  ctx.count('permutations_compared')
  for i in range(1, len(texts)):
    if texts[i] != texts[0]:
      key = 'text-depends-on-binding-order'
      if only_line_order_differs(texts[0], texts[i]) and case_has_unorderable_dict(case):
        key = 'dict-with-unorderable-keys-printed-in-object-id-order'
      ctx.check(False, key, 'config_str differs between two orders of the same binding set:\n--- order A\n%s\n--- order B\n%s' %
                (texts[0][:1200], texts[i][:1200]))
      break
  else:
    ctx.count('oracle_evals')
  s = texts[-1]
  ctx.sample({'mll': mll, 'ci': ci, 'config_str': s[:900]}, cap=3)
  if any('\\' == l[-1:] for l in s.splitlines()):
    ctx.bucket('wrapped:continuation-line')

  # (c) ordering inside the text
  def section_name(h):
    sel = h.rpartition('/')[2]
    try:
      ent = gc._REGISTRY.get_match(sel)
    except KeyError:
      ent = None
    if ent is None:
      return None
    full = ent.selector.split('.')
    return ('.'.join(full[-2:]) if ent.is_method else full[-1]).lower()
  if not check_structure(ctx, gin, s, section_name):
    return

  # (a) round trip
  imports_before = [import_form(i) for i in case['imports']]
  exp, optional = {}, {}
  for kind, key, spec in case['items']:
    k = (key, 'gin.macro', 'value') if kind == 'm' else (key[0], target_selector(key[1]), key[2])
    if spec == ['non', 'gin-required-object']:
      # gin.REQUIRED itself, bound programmatically: whether its literal form is "none" or `%gin.REQUIRED` is not pinned down
      optional[k] = canon(gc.parse_value('%gin.REQUIRED'))
      continue
    if not spec_representable(spec):
      ctx.bucket('omitted:nonrepresentable')
      continue
    exp[k] = canon(value_of(spec, cache), ordered=False)
  if not roundtrip(ctx, gin, gc, s, mll, ci, exp, optional, case, 'roundtrips'):
    return
  check_import_forms(ctx, imports_before, [(st.module, st.is_from, st.alias) for st in gc._IMPORTS])
  if case.get('via_file'):
    run_via_files(ctx, gin, gc, case, cache, exp, optional, texts[0])


def check_structure(ctx, gin, s, section_name):
  """(c) sections grouped alphabetically, parameters sorted inside a section; (d) markdown keeps the binding lines.
  section_name(header) -> the case-folded innermost name of the configurable a header names, None if it names nothing known,
  '' if its place in the order is not pinned down."""
  headers = [HDR.match(l).group(1) for l in s.splitlines() if HDR.match(l)]
  names = []
  for h in headers:
    nm = section_name(h)
    if not ctx.check(nm is not None, 'header-does-not-resolve', 'section header %r does not resolve uniquely' % h):
      return False
    if nm:
      names.append(nm)
  ctx.check(names == sorted(names), 'sections-not-alphabetical', 'sections not grouped alphabetically by innermost name: %r' % names)
  ctx.check(len(set(headers)) == len(headers), 'configurable-split-over-sections', 'a section header occurs twice: %r' % headers)
  # parameters sorted within each section (statement order as read back by the real parser)
  try:
    _, _, _, order = snap.parse_text(s)
  except Exception:  # pylint: disable=broad-except
    order = []  # unparseable text is reported by the round-trip oracle
  groups = []
  for (sc, sel, arg) in order:
    if not arg:
      continue
    if groups and groups[-1][0] == (sc, sel):
      groups[-1][1].append(arg)
    else:
      groups.append(((sc, sel), [arg]))
  for key, args in groups:
    ctx.check(args == sorted(args), 'parameters-not-sorted', 'section %r lists parameters %r' % (key, args))
  ctx.check(len({k for k, _ in groups}) == len(groups), 'configurable-split-over-sections', 'the bindings of one configurable are not contiguous: %r' % [k for k, _ in groups])

  # (d) markdown keeps every binding line verbatim, in order
  md = gin.config.markdown(s).splitlines()
  pos = 0
  ok = True
  l = ''
  for l in s.splitlines():
    if l.startswith('#') or not l.strip():
      continue
    want = '    ' + l
    try:
      pos = md.index(want, pos) + 1
    except ValueError:
      ok = False
      break
  ctx.count('markdown_checked')
  ctx.check(ok, 'markdown-drops-binding-line', 'markdown() lost or reordered line %r' % (l,))
  return True


def reserialisation_key(s, s2, specs, base='reserialisation-differs'):
  """Mechanism key for `s2 != s`: the two recorded findings are recognised by their narrow shapes only."""
  t2 = s2.split('\n')
  while t2 and t2[-1] == '':
    t2.pop()
  a, b = '\n'.join(strip_none_sections(s)), '\n'.join(t2)
  if a == b and '# None.' in s:
    return 'empty-section-of-nonrepresentable-only-bindings-not-reproduced'
  if only_line_order_differs(a, b) and any(sp[0] == 'lit' and has_unorderable_dict(sp[1]) for sp in specs):
    return 'dict-with-unorderable-keys-printed-in-object-id-order'
  return base


def roundtrip(ctx, gin, gc, s, mll, ci, exp, optional, case, counter, sel_key=None, label=''):
  """Parse `s` into a cleared configuration: it must parse, restore exactly `exp` (+ possibly `optional`), and serialise to `s` again."""
  specs = [sp for _, _, sp in flat_specs(case)]
  gin.clear_config()
  try:
    gin.parse_config(s)
  except Exception as e:  # pylint: disable=broad-except
    nonlit_macro = any(k == 'm' and not spec_representable(sp) for k, _, sp in case['items'])
    ctx.check(False, label + 'config-str-does-not-parse' + (':nonliteral-macro-emitted' if nonlit_macro and 'Macros' in s else ''),
              'parse_config(config_str()) failed with %s: %s\n%s' % (type(e).__name__, str(e)[:300], s[:1200]))
    return False
  ctx.count(counter)
  ctx.bucket('roundtrip:done')
  got = {}
  for (sc, sel), d in gc._CONFIG.items():
    for prm, v in d.items():
      got[(sc, sel_key(sel) if sel_key else sel, prm)] = canon(v, ordered=False)
  for k, v in optional.items():
    if got.get(k) == v:
      del got[k]
  if got != exp:
    d = snap.diff(got, exp)
    ctx.check(False, label + 'roundtrip-differs', 'after re-parsing config_str (restored, expected representable subset): %r' % ({k: d[k] for k in list(d)[:5]},), {'text': s[:1500]})
  else:
    ctx.count('oracle_evals')
  try:
    s2 = gin.config_str(mll, ci)
  except Exception as e:  # pylint: disable=broad-except
    ctx.check(False, 'config-str-raises', 'config_str after round trip raised %r' % (e,))
    return False
  if s2 != s:
    ctx.check(False, reserialisation_key(s, s2, specs, label + 'reserialisation-differs'), 'serialising again after the round trip differs:\n%s\n---\n%s' % (s[:800], s2[:800]))
  else:
    ctx.count('oracle_evals')
  return True


# ---------------------------------------------------------------------------------------------------------------------------------
# files, include, provenance comments


def scratch_dir():
  if 'tmp' not in _S:
    _S['tmp'] = tempfile.mkdtemp(prefix='vf-c06-')
    atexit.register(shutil.rmtree, _S['tmp'], True)
  return _S['tmp']


def run_via_files(ctx, gin, gc, case, cache, exp, optional, s_ref):
  """The same binding set read with parse_config_file from a file that includes another one (the rest bound programmatically): the text is
  the same; with show_provenance=True the text (now carrying `# Set in file:line:` comments) still parses to the same configuration."""
  mll, ci = case['mll'], case['ci']
  vf = case['via_file']
  d = scratch_dir()
  inc_path = os.path.join(d, 'inc_%s_%d.gin' % (ctx.uid, ctx.case_no))
  main_path = os.path.join(d, 'main_%s_%d.gin' % (ctx.uid, ctx.case_no))
  inc_lines, main_lines, prog = [], [], []
  for pos, (kind, key, spec) in enumerate(case['items']):
    txt = text_of(spec)
    if txt is None:
      prog.append(pos)
    else:
      (inc_lines if vf['in_include'][pos] else main_lines).append(statement_text(kind, key, txt))
  main_lines.insert(int(vf['inc_at'] * (len(main_lines) + 1)), "include '%s'" % inc_path)
  with open(inc_path, 'w', encoding='utf-8') as f:
    f.write('\n'.join(inc_lines) + '\n')
  with open(main_path, 'w', encoding='utf-8') as f:
    f.write('\n'.join(list(case['imports']) + main_lines) + '\n')
  ctx.bucket('api:parse_config_file')
  ctx.bucket('api:include')
  gin.clear_config()
  try:
    gin.parse_config_file(main_path)
    for pos in prog:
      kind, key, spec = case['items'][pos]
      bind_one(gin, kind, key, spec, False, cache)
    s_file = gin.config_str(mll, ci)
    s_prov = gin.config_str(mll, ci, show_provenance=True)
  except Exception as e:  # pylint: disable=broad-except
    ctx.check(False, 'config-str-raises', 'reading the binding set from files / config_str(show_provenance=True) raised %s: %s' % (type(e).__name__, str(e)[:300]))
    return
  finally:
    for p in (inc_path, main_path):
      try:
        os.unlink(p)
      except OSError:
        pass
  if s_file != s_ref:
    key = 'text-depends-on-binding-order'
    if only_line_order_differs(s_ref, s_file) and case_has_unorderable_dict(case):
      key = 'dict-with-unorderable-keys-printed-in-object-id-order'
    ctx.check(False, key, 'config_str of the same binding set differs when it is read from files:\n--- bound in the process\n%s\n--- read from files\n%s' % (s_ref[:1200], s_file[:1200]))
  else:
    ctx.count('oracle_evals')
  if '# Set in ' in s_prov:
    ctx.bucket('provenance:shown')
  # the text with provenance comments parses and restores the same configuration, whose plain text is the plain text
  gin.clear_config()
  try:
    gin.parse_config(s_prov)
  except Exception as e:  # pylint: disable=broad-except
    ctx.check(False, 'provenance-text-does-not-parse', 'parse_config(config_str(show_provenance=True)) failed with %s: %s\n%s' % (type(e).__name__, str(e)[:300], s_prov[:1200]))
    return
  ctx.count('provenance_roundtrips')
  got = {}
  for (sc, sel), dd in gc._CONFIG.items():
    for prm, v in dd.items():
      got[(sc, sel, prm)] = canon(v, ordered=False)
  for k, v in optional.items():
    if got.get(k) == v:
      del got[k]
  if got != exp:
    df = snap.diff(got, exp)
    ctx.check(False, 'provenance-text-roundtrip-differs', 'after re-parsing config_str(show_provenance=True) (restored, expected): %r' % ({k: df[k] for k in list(df)[:5]},), {'text': s_prov[:1500]})
  else:
    ctx.count('oracle_evals')
  s2 = gin.config_str(mll, ci)
  if s2 != s_file:
    ctx.check(False, reserialisation_key(s_file, s2, [sp for _, _, sp in flat_specs(case)], 'provenance-text-reserialisation-differs'),
              'config_str() of what config_str(show_provenance=True) parses to differs from config_str():\n%s\n---\n%s' % (s_file[:800], s2[:800]))
  else:
    ctx.count('oracle_evals')
  md = gin.config.markdown(s_prov).splitlines()
  missing = [l for l in s_prov.splitlines() if l.strip() and not l.startswith('#') and ('    ' + l) not in md]
  ctx.check(not missing, 'markdown-drops-binding-line', 'markdown() of the text with provenance comments lost %r' % (missing[:2],))
  gin.clear_config()


# ---------------------------------------------------------------------------------------------------------------------------------
# dynamic registration crossed with value shapes, binding orders, widths, macros and programmatic bindings (own generator on vf/pkgtree.py)

# objects of a generated package: key -> (module under the package, attribute chain, parameters, case-folded innermost name, kind)
DOBJ = {
    'alpha.fa': ('alpha', 'fa', ['x', 'y'], 'fa', 'function'),
    'alpha.shared': ('alpha', 'shared', ['v'], 'shared', 'function'),
    'alpha.K': ('alpha', 'K', ['a', 'b'], 'k', 'class'),
    'alpha.K.meth': ('alpha', 'K.meth', ['m'], 'k.meth', 'method'),
    'alpha.K.other': ('alpha', 'K.other', ['o'], 'k.other', 'method'),
    'alpha.K.Inner': ('alpha', 'K.Inner', ['i'], 'inner', 'class'),
    'alpha.K.Inner.deep': ('alpha', 'K.Inner.deep', ['d'], 'inner.deep', 'method'),
    'alpha.S': ('alpha', 'S', ['a'], 's', 'class'),
    'beta.fb': ('beta', 'fb', ['x'], 'fb', 'function'),
    'beta.shared': ('beta', 'shared', ['v'], 'shared', 'function'),
    'beta.K': ('beta', 'K', ['a'], 'k', 'class'),
    'sub.alpha.fa': ('sub.alpha', 'fa', ['x'], 'fa', 'function'),
    'sub.alpha.Deep': ('sub.alpha', 'Deep', ['q'], 'deep', 'class'),
    'sub.gamma.fg': ('sub.gamma', 'fg', ['x', 'ref'], 'fg', 'function'),
}
# registered statically, by a decorator in their module, under another name than the attribute's: bound programmatically by that name
DSTATIC = {'alpha.decorated': ('alpha', 'decorated', ['z'], 'custom_%s'), 'alpha.Outer.Nested': ('alpha', 'Outer.Nested', ['n'], 'nested_%s')}
DALIAS = {'alpha': 'a1', 'beta': 'Zb', 'sub.alpha': 'SA', 'sub.gamma': 'g_'}
# GENUINE DEFECT of gin (reproducer: /tmp/impl/C06/defect_1.py), switched off so that the run is not dominated by it: under dynamic registration
# the statement `mod.K.meth.m = @mod.K` (a method's parameter bound to a reference to the method's own class), when it is the first to name the
# method, stores a reference to the registration of K that naming the method has just replaced; the reference compares unequal to its own re-parse,
# so config_str() omits the binding (`# None.`) and the text depends on the order of first use.  True = generate such statements.
ENABLE_DYN_REFERENCE_TO_OWN_CLASS_IN_METHOD_BINDING = True
# GENUINE DEFECT of gin (reproducer: /tmp/impl/C06/defect_2.py), switched off likewise: with three or more plain imports of modules of one package
# (`import P.alpha`, `import P.sub.alpha`, `import P.sub.gamma`) config_str() adds synthetic imports (`import P`, `import P.sub`) whose numbered
# aliases (P4, P5) are assigned in the order the bindings were made: the text depends on the binding order.  True = generate three or more.
ENABLE_DYN_THREE_PLAIN_IMPORTS_OF_ONE_PACKAGE = True


def dyn_import(pk, mod, form):
  """-> (statement text, spelling prefix of the module's attributes, (module, is_from, alias))"""
  full = pk + '.' + mod
  parent, leaf = full.rsplit('.', 1)
  al = DALIAS[mod]
  if form == 0:
    return 'import ' + full, full, (full, False, None)
  if form == 1:
    return 'import %s as %s' % (full, al), al, (full, False, al)
  if form == 2:
    return 'from %s import %s' % (parent, leaf), leaf, (full, True, None)
  return 'from %s import %s as %sf' % (parent, leaf, al), al + 'f', (full, True, al + 'f')


def gen_dval(rng, depth=0, pool=None):
  r = rng.random()
  if r < 0.4:
    v = gen.gen_value(rng, depth=rng.choice([0, 1, 2]))
    q = rng.random()
    if q < 0.15:
      v = ' '.join(rng.choice(WORDS) for _ in range(rng.choice([12, 30])))
    elif q < 0.3:
      v = gen_long(rng)
    return ['lit', v]
  if r < 0.58:
    return ['dref', rng.choice(['', '', 'rs', 'a/rs']), rng.choice(pool or sorted(DOBJ)), rng.random() < 0.5]
  if r < 0.68:
    return ['macro', rng.choice(['d6mac', 'D6MAC', 'sc/d6mac'])]
  if r < 0.73:
    return ['const', rng.choice(CONST_SPELLINGS)]
  if r < 0.9 or depth > 1:
    return ['non', rng.choice(sorted(NONLIT))]
  return ['in', rng.choice(['list', 'tuple', 'dict']), gen_dval(rng, depth + 1, pool)]


def gen_dyn2(rng):
  binds = {}
  # sometimes the text never mentions module alpha, whose decorator-registered configurables are then bound programmatically
  no_alpha = rng.random() < 0.2
  pool = [k for k in sorted(DOBJ) if not (no_alpha and DOBJ[k][0] == 'alpha')]
  for _ in range(rng.choice([2, 3, 5, 8])):
    obj = rng.choice(pool)
    binds[(rng.choice(['', '', 'sc', 'Sc', 'a/b']), obj, rng.choice(DOBJ[obj][2]))] = gen_dval(rng, 0, pool)
  # an object all of whose bindings have no text form gets one that has (in a scope of its own): the object must be named by the text once
  for obj in sorted({k[1] for k in binds}):
    if not any(spec_representable(v) and 'dref' != innermost(v)[0] for k, v in binds.items() if k[1] == obj):
      binds[('anc', obj, DOBJ[obj][2][0])] = ['lit', rng.randrange(100)]
  if not ENABLE_DYN_REFERENCE_TO_OWN_CLASS_IN_METHOD_BINDING:
    for (scope, obj, prm), v in binds.items():
      sp = innermost(v)
      if DOBJ[obj][4] == 'method' and sp[0] == 'dref' and sp[2] == obj.rpartition('.')[0]:
        sp[2] = 'beta.fb'
  macros = {m: gen_dval(rng, 0, pool) for m in rng.sample(['d6mac', 'D6MAC', 'sc/d6mac', 'd6other'], rng.choice([0, 1, 2]))}
  items = [['b', list(k), v] for k, v in binds.items()] + [['m', k, v] for k, v in macros.items()]
  static = []
  if no_alpha or rng.random() < 0.35:
    for name in rng.sample(sorted(DSTATIC), rng.choice([1, 2])):
      static.append([rng.choice(['', 'sc']), name, DSTATIC[name][2][0], gen_dval(rng, 0, pool)])
  used = {DOBJ[k[1][1]][0] for k in items if k[0] == 'b'}
  for sp in [innermost(it[2]) for it in items] + [innermost(st[3]) for st in static]:
    if sp[0] == 'dref':
      used.add(DOBJ[sp[2]][0])
  forms = {}
  for mod in sorted(DALIAS):
    if mod in used or (rng.random() < 0.3 and not (no_alpha and mod == 'alpha')):
      forms[mod] = rng.randrange(4)
  if forms.get('alpha') == 2 and forms.get('sub.alpha') == 2:
    forms['sub.alpha'] = 3      # both would bind the name `alpha`
  if not ENABLE_DYN_THREE_PLAIN_IMPORTS_OF_ONE_PACKAGE:
    for mod in [m for m in sorted(forms) if forms[m] == 0][2:]:
      forms[mod] = 1
  elif len(forms) >= 3 and rng.random() < 0.35:
    # several plain imports of modules of one package: every one binds the package name, the string has to add imports of its own
    forms = {mod: 0 for mod in forms}
  mll = rng.choice([80, 80, 200, 40, 20, 10, 5, 2])
  ci = rng.choice([c for c in [4, 4, 0, 1, 8, mll - 1] if 0 <= c < mll])
  perms = []
  for _ in range(rng.choice([2, 2, 3])):
    order = list(range(len(items)))
    rng.shuffle(order)
    perms.append([order, [rng.random() < 0.6 for _ in items], rng.randrange(4)])
  return {'items': items, 'static': static, 'forms': forms, 'mll': mll, 'ci': ci, 'perms': perms}


def own_tree():
  if 'own_tree' not in _S:
    _S['own_tree'] = pkgtree.Tree()
    atexit.register(_S['own_tree'].cleanup)
  return _S['own_tree']


def resolve_attr(pk, mod, chain):
  o = importlib.import_module(pk + '.' + mod)
  for c in chain.split('.'):
    o = getattr(o, c)
  return o


def run_reference_only_order(ctx):
  """Two configurables registered by their own modules' decorators (modules `P.alpha` and `P.sub.alpha`: the same last component), never
  imported by the config and never bound: they occur only inside VALUES. The config string has to add imports for both; which of the two
  gets the plain alias must not depend on the order in which the bindings were made, and the text re-parses to the same bindings."""
  import gin
  from gin import config as gc
  pk = own_tree().new_package('c6r')
  importlib.import_module(pk + '.alpha')
  importlib.import_module(pk + '.sub.alpha')
  ctx.bucket('dyn:reference-only-configurables-in-equally-named-modules')
  texts = []
  for order in (0, 1):
    gin.clear_config()
    gin.parse_config('from __gin__ import dynamic_registration\nimport %s.sub.gamma\n%s.sub.gamma.fg.x = 1\n' % (pk, pk))
    sel = gc._inverse_lookup(resolve_attr(pk, 'sub.gamma', 'fg')).selector
    binds = [(('sc', sel, 'x'), '@custom_%s()' % pk), (('sc', sel, 'ref'), '[@subcustom_%s(), 2]' % pk)]
    for key, val in (binds if order == 0 else binds[::-1]):
      gin.bind_parameter(key, gc.parse_value(val))
    try:
      texts.append(gin.config_str())
    except Exception as e:  # pylint: disable=broad-except
      ctx.check(False, 'config-str-raises', 'reference-only configurables: config_str() raised %s: %s' % (type(e).__name__, str(e)[:300].replace(pk, 'PK')))
      gin.clear_config()
      return
  ctx.count('permutations_compared')
  ctx.count('oracle_evals')
  ctx.check(texts[0] == texts[1], 'text-depends-on-binding-order', 'dynamic registration, two configurables that occur only in values: config_str differs '
            'between the two orders of the same two bindings:\n--- order A\n%s\n--- order B\n%s' % (texts[0].replace(pk, 'PK'), texts[1].replace(pk, 'PK')))
  before = {k: {a: repr(v) for a, v in d.items()} for k, d in gc._CONFIG.items() if d}
  gin.clear_config()
  try:
    gin.parse_config(texts[1])
    after = {k: {a: repr(v) for a, v in d.items()} for k, d in gc._CONFIG.items() if d}
    fg = gin.get_configurable(resolve_attr(pk, 'sub.gamma', 'fg'))
    with gin.config_scope('sc'):
      got = fg()
    ctx.check(after == before and got[1:] == ((pk + '.alpha.decorated', 0), [(pk + '.sub.alpha.decorated', 0), 2]), 'roundtrip-differs',
              'reference-only configurables: after re-parsing config_str() the bindings are %r (before %r), the scoped call received %r\n%s' % (
                  after, before, got, texts[1].replace(pk, 'PK')))
  except Exception as e:  # pylint: disable=broad-except
    ctx.check(False, 'roundtrip-parse-failed', 'reference-only configurables: re-parsing config_str() raised %s: %s\n%s' % (
        type(e).__name__, str(e)[:300].replace(pk, 'PK'), texts[1].replace(pk, 'PK')))
  gin.clear_config()


def run_dyn2(ctx, case):
  if ctx.case_no % 4 == 0:
    run_reference_only_order(ctx)
  import gin
  from gin import config as gc
  ensure_consts()
  gin.clear_config()
  pk = own_tree().new_package('c6d')
  mll, ci = case['mll'], case['ci']
  items, static = case['items'], case['static']
  imps = {mod: dyn_import(pk, mod, form) for mod, form in case['forms'].items()}
  _S['dyn_spelling'] = {k: imps[v[0]][1] + '.' + v[1] for k, v in DOBJ.items() if v[0] in imps}
  _S['dyn_selector'] = {}
  cache = {}
  feats = set()
  for it in items:
    spec_feats(it[2], feats)
    if it[2][0] == 'in':
      feats.add('dyn:nested-value')
    if it[0] == 'm':
      feats.add('dyn:macro')
    elif DOBJ[it[1][1]][4] == 'method':
      feats.add('dyn:method')
    if not spec_representable(it[2]) and it[2] != ['non', 'gin-required-object']:
      feats.add('dyn:nonrepresentable-omitted')
  feats.add('dyn:width-tiny' if mll <= 10 else 'dyn:width-other')
  if ci == 0:
    feats.add('dyn:indent0')
  if static:
    feats.add('dyn:static-configurable-bound-programmatically')
    if 'alpha' not in imps:
      feats.add('dyn:static-configurable-module-not-imported-by-text')
  for f in feats:
    if f.startswith('dyn:'):
      ctx.bucket(f)
  ctx.bucket('registration:dynamic')
  ctx.fp('dyn2', tuple(sorted(feats)), tuple(sorted(case['forms'].items())), len(items), len(static), mll, ci)

  def textual(spec):
    return text_of(spec) is not None
  # per object, the first item with a text form is always written in the text (an object is registered when the text names it)
  forced = set()
  seen = set()
  for pos, it in enumerate(items):
    if it[0] == 'b' and textual(it[2]) and it[1][1] not in seen and innermost(it[2])[0] != 'dref':
      seen.add(it[1][1])
      forced.add(pos)
    if innermost(it[2])[0] == 'dref':
      forced.add(pos)         # a reference to a dynamically registered object is written through the file's imports

  def selector_of(objkey):
    if objkey not in _S['dyn_selector']:
      mod, chain = DOBJ[objkey][0], DOBJ[objkey][1]
      ent = gc._inverse_lookup(resolve_attr(pk, mod, chain))
      if ent is None:
        return None
      _S['dyn_selector'][objkey] = ent.selector
    return _S['dyn_selector'][objkey]
  _S['dyn_selector_of'] = selector_of

  texts = []
  for order, flags, rot in case['perms']:
    gin.clear_config()
    header = [imps[m][0] for m in sorted(imps)]
    header = ['from __gin__ import dynamic_registration'] + header[rot % max(1, len(header)):] + header[:rot % max(1, len(header))]
    lines, prog = [], []
    for idx, pos in enumerate(order):
      kind, key, spec = items[pos]
      if textual(spec) and (pos in forced or flags[idx]):
        lines.append(statement_text_dyn(kind, key, text_of(spec)))
      else:
        prog.append(pos)
    text = '\n'.join(header + lines) + '\n'
    ctx.sample({'dyn2_text': text.replace(pk, 'PK')}, cap=2)
    try:
      gin.parse_config(text)
    except Exception as e:  # pylint: disable=broad-except
      ctx.check(False, 'valid-dynamic-config-rejected', 'parse raised %s: %s\n%s' % (type(e).__name__, str(e)[:300], text.replace(pk, 'PK')))
      return
    try:
      for pos in prog:
        kind, key, spec = items[pos]
        ctx.bucket('dyn:programmatic-binding')
        if kind == 'm':
          gin.bind_parameter((key, 'gin.macro', 'value'), value_of(spec, cache))
        else:
          sel = selector_of(key[1])
          if sel is None:
            raise LookupError('object %s is not registered after the text named it' % key[1])
          gin.bind_parameter((key[0], sel, key[2]), value_of(spec, cache))
      if static:
        importlib.import_module(pk + '.alpha')      # runs the decorators (if the text did not import the module already)
      for scope, name, prm, spec in static:
        if innermost(spec)[0] == 'dref' and selector_of(innermost(spec)[2]) is None:
          continue      # a reference to an object the text never named cannot be made programmatically
        gin.bind_parameter((scope, DSTATIC[name][3] % pk, prm), value_of(spec, cache))
    except Exception as e:  # pylint: disable=broad-except
      ctx.check(False, 'programmatic-binding-after-dynamic-parse-rejected', 'bind_parameter after a dynamic-registration parse raised %s: %s\n%s' % (
          type(e).__name__, str(e)[:300].replace(pk, 'PK'), text.replace(pk, 'PK')))
      return
    try:
      texts.append(gin.config_str(mll, ci))
    except Exception as e:  # pylint: disable=broad-except
      ctx.check(False, 'config-str-raises', 'dynamic registration: config_str(%d, %d) raised %s: %s\n%s' % (mll, ci, type(e).__name__, str(e)[:300].replace(pk, 'PK'), text.replace(pk, 'PK')))
      return
  specs = [innermost(it[2]) for it in items] + [innermost(st[3]) for st in static]
  unorderable = any(sp[0] == 'lit' and has_unorderable_dict(sp[1]) for sp in specs)
  ctx.count('permutations_compared')
  ctx.bucket('dyn:orders-compared')
  for i in range(1, len(texts)):
    if texts[i] != texts[0]:
      key = 'text-depends-on-binding-order'
      if unorderable and only_line_order_differs(texts[0], texts[i]):
        key = 'dict-with-unorderable-keys-printed-in-object-id-order'
      ctx.check(False, key, 'dynamic registration: config_str differs between two orders of the same binding set:\n--- order A\n%s\n--- order B\n%s' %
                (texts[0][:1200].replace(pk, 'PK'), texts[i][:1200].replace(pk, 'PK')))
      break
  else:
    ctx.count('oracle_evals')
  s = texts[-1]

  # which object a section header / a selector of the store names (through the imports the text itself carries)
  try:
    _, s_imports, _, _ = snap.parse_text(s)
  except Exception:  # pylint: disable=broad-except
    s_imports = None      # the text does not even tokenise: reported by the round trip below, nothing to say about its headers
  prefixes = {}
  for module, is_from, alias in s_imports or []:
    prefixes[alias or (module.rsplit('.', 1)[-1] if is_from else module)] = module
  by_path = {pk + '.' + v[0] + '.' + v[1]: k for k, v in list(DOBJ.items()) + list(DSTATIC.items())}

  def object_of_spelling(sel):
    best = None
    for p in prefixes:
      if sel.startswith(p + '.') and (best is None or len(p) > len(best)):
        best = p
    return by_path.get(prefixes[best] + sel[len(best):]) if best else None

  def section_name(h):
    if s_imports is None:
      return ''
    k = object_of_spelling(h.rpartition('/')[2])
    if k is None:
      return None
    return '' if k in DSTATIC else DOBJ[k][3]      # printed under one name, registered under another: its place is not pinned down
  if not check_structure(ctx, gin, s, section_name):
    return

  # round trip against the model
  exp, optional = {}, {}
  for kind, key, spec in items:
    k = (key, 'gin.macro', 'value') if kind == 'm' else (key[0], key[1], key[2])
    if spec == ['non', 'gin-required-object']:
      optional[k] = canon(gc.parse_value('%gin.REQUIRED'))
    elif spec_representable(spec):
      exp[k] = canon(value_of(spec, cache), ordered=False)
  for scope, name, prm, spec in static:
    if innermost(spec)[0] == 'dref' and selector_of(innermost(spec)[2]) is None:
      continue
    if spec == ['non', 'gin-required-object']:
      optional[(scope, name, prm)] = canon(gc.parse_value('%gin.REQUIRED'))
    elif spec_representable(spec):
      exp[(scope, name, prm)] = canon(value_of(spec, cache), ordered=False)
  sel2key = {'gin.macro': 'gin.macro'}
  for k in DOBJ:
    if k in _S['dyn_spelling'] and selector_of(k):
      sel2key[selector_of(k)] = k
  for name, v in DSTATIC.items():
    sel2key['%s.%s.%s' % (pk, v[0], v[3] % pk)] = name
  fake = {'items': [[it[0], it[1], it[2]] for it in items] + [['b', [st[0], st[1], st[2]], st[3]] for st in static]}
  ctx.bucket('dyn:roundtrip')
  if not roundtrip(ctx, gin, gc, s, mll, ci, exp, optional, fake, 'dyn_roundtrips', sel_key=lambda sel: sel2key.get(sel, ('unknown selector', sel))):
    return
  # (under dynamic registration the text may carry further imports, for what it mentions: "restores the recorded imports" is what is demanded)
  before = [v[2] for v in imps.values()] + [('__gin__.dynamic_registration', True, None)]
  check_import_forms(ctx, before, [(st.module, st.is_from, st.alias) for st in gc._IMPORTS], allowed_extra=None, bucket='dyn:imports-form-compared')
  gin.clear_config()


def statement_text_dyn(kind, key, txt):
  if kind == 'm':
    return '%s = %s' % (key, txt)
  scope, obj, prm = key
  return '%s%s.%s = %s' % (scope + '/' if scope else '', _S['dyn_spelling'][obj], prm, txt)


def run_late_registration(ctx, case):
  """config_str() is taken, then another configurable with the same base name is registered: the next config_str() must still parse."""
  import gin
  from gin import config as gc
  gin.clear_config()
  ctx.bucket('history:registration-after-config_str')
  name = 'c6late%d_%d_%s' % (case['late_registration'] % 100000, ctx.case_no, ctx.uid)

  def mk(tag):
    def fn(x=0):
      return (tag, x)
    fn.__name__ = name
    return fn
  f1 = gin.external_configurable(mk('one'), name, module='c6x.vision.models')
  pre = case['scope'] + '/' if case['scope'] else ''
  gin.parse_config('%s%s.x = 64\nc6c.x = @%s()\n' % (pre, name, name))
  s1 = gin.config_str(case['mll'])
  f2 = gin.external_configurable(mk('two'), name, module='c6x.audio.models')     # the short name is ambiguous from now on
  s2 = gin.config_str(case['mll'])
  for label, text in (('before', s1), ('after', s2)):
    if label == 'before':
      continue  # the earlier text legitimately used the then-unique short name
    store = snap.store_nonempty(gc)
    gin.clear_config()
    try:
      gin.parse_config(text)
      ctx.check(snap.store_nonempty(gc) == store, 'roundtrip-differs', 'config_str taken after a same-named configurable was registered restores %r, expected %r' %
                (snap.store_nonempty(gc), store))
      ctx.check(gin.config_str(case['mll']) == text, 'reserialisation-differs', 'not idempotent after late registration')
    except Exception as e:  # pylint: disable=broad-except
      ctx.check(False, 'config-str-does-not-parse', 'config_str() taken after registering another %r does not parse: %s: %s\n%s' % (name, type(e).__name__, str(e)[:200], text))
  ctx.count('roundtrips')
  ctx.fp('late-registration', case['mll'], case['scope'])
  gin.clear_config()


def finish(ctx):
  from vf.checks import c19
  if 'tree' in c19._S:
    c19._S['tree'].cleanup()
  if 'own_tree' in _S:
    _S.pop('own_tree').cleanup()
  if 'tmp' in _S:
    shutil.rmtree(_S.pop('tmp'), ignore_errors=True)


def strip_none_sections(text):
  """Drop '# Parameters for X: / ==== / # None. / <blank>' blocks (sections with nothing representable)."""
  lines = text.split('\n')
  out, i = [], 0
  while i < len(lines):
    if HDR.match(lines[i]) and i + 2 < len(lines) and lines[i + 1].startswith('# ') and set(lines[i + 1][2:]) <= {'='} and lines[i + 2] == '# None.':
      i += 4 if (i + 3 < len(lines) and lines[i + 3] == '') else 3
      continue
    out.append(lines[i])
    i += 1
  while out and out[-1] == '':
    out.pop()
  return out


def has_unorderable_dict(v):
  if type(v) is dict:
    try:
      sorted(v)
    except TypeError:
      return True
    return any(has_unorderable_dict(k) or has_unorderable_dict(x) for k, x in v.items())
  if type(v) in (list, tuple):
    return any(has_unorderable_dict(x) for x in v)
  return False


def case_has_unorderable_dict(case):
  return any(sp[0] == 'lit' and has_unorderable_dict(sp[1]) for _, _, sp in flat_specs(case))


def only_line_order_differs(a, b):
  """True iff two config texts spell the same statements in the same order and differ only in the order of dict items."""
  if a == b:
    return False
  try:
    ba, ia, _, oa = snap.parse_text(a)
    bb, ib, _, ob = snap.parse_text(b)
  except Exception:  # pylint: disable=broad-except
    return False
  if oa != ob or ia != ib:
    return False
  if [l for l in a.split('\n') if l.startswith('#')] != [l for l in b.split('\n') if l.startswith('#')]:
    return False
  return all(canon(ba[k], ordered=False) == canon(bb[k], ordered=False) for k in ba)


def flat_specs(case):
  out = []
  for kind, key, spec in case['items']:
    sp = spec
    while sp[0] == 'in':
      sp = sp[2]
    out.append((kind, key, sp))
  return out


LEVEL_TEXT = ('Runtime metamorphic monitor over pairs of executions: the same generated binding set is applied in 2-4 orders (text and programmatic, some keys '
              're-bound, once more from a file including another file), with and without dynamic registration (own generator on a generated package, and the '
              'machinery of C19); config_str(w, ci) must be identical across orders, must parse on a cleared configuration restoring exactly the representable '
              'subset (own classifier, typed equality) and the recorded import statements, must be reproduced by re-serialisation, must keep sections/parameters '
              'sorted and markdown() must keep every binding line; the text with provenance comments must parse to the same configuration; hostile values '
              'include objects whose repr looks like references, unbalanced brackets or strings.')
LEVEL_NOTE = ('Trusted: own representability classifier and typed equality (dict order ignored: pprint sorts keys); under dynamic registration the selector an '
              'object is registered under is read from gin (_inverse_lookup) to bind programmatically and to map the restored store onto the model. Two genuine '
              'defects found by the dynamic-registration generator are switched off by the ENABLE_DYN_* constants (see their comments). Whether the gin.REQUIRED '
              'object bound programmatically is omitted or printed as %gin.REQUIRED is not asserted. Objects that compare equal to a literal of another type '
              'are not generated.')
TECHNIQUE = 'runtime metamorphic monitor (permutation vs permutation, text vs re-parse vs re-serialisation) with hostile non-literal values'
DESIGN_REF = 'DESIGN.md section 4, C06'
