"""C04 — references deliver the configurable or a fresh result, in the right scope."""
from vf import probes, snap
from vf.teq import canon, teq

ID = 'C04'
LEVEL = 'exploration'
RULE = ('consumer probes whose parameters are bound (by config text) to value trees containing @p, @p(), @s1/s2/p(), %macro (bound to an '
        'evaluated reference) at depth 0-3 inside lists/tuples/dict values/dict keys; acyclic provider graphs of depth<=3 (scoped outer reference '
        'whose own parameter holds an unscoped inner one); ambient scope programs; per-parameter caller override positional/keyword/none; call '
        'sequences of length 1-5 in which the consumer mutates everything it received at every depth. Oracle: model walk of each Gin-supplied '
        'value tree -> exact multiset of (provider, observed scope) calls per consumer call, zero calls for caller-supplied parameters, fresh '
        'identities across calls, delivered structure; queries/config strings/next reception unchanged by consumer mutation. '
        'distinct = (tree shape, reference kinds, ambient depth, override pattern, #calls)')
TIERS = {
    'quick': {'workers': 8, 'cases': 1000, 'timeout': 600},
    'thorough': {'workers': 16, 'cases': 15000, 'timeout': 3000},
}
REQUIRED_BUCKETS = ['ref:unevaluated', 'ref:evaluated', 'ref:scoped-evaluated', 'ref:scoped-unevaluated', 'ref:macro', 'ref:in-list', 'ref:in-tuple', 'ref:in-dict-value',
                    'ref:as-dict-key', 'ref:depth3', 'graph:nested-provider', 'graph:scoped-outer-unscoped-inner', 'ambient:depth0', 'ambient:depth2+',
                    'override:positional', 'override:keyword', 'override:none', 'calls:3+', 'mutation:applied', 'delivered-fn-called',
                    'override:keyword-on-evaluated-ref', 'override:positional-on-evaluated-ref', 'history:scoped-reference-left-by-BaseException', 'parsed-inside-a-scope', 'override:keyword-on-varkw-parameter', 'special:target-reregistered', 'special:rebind-changes-only-the-scope']
ORACLE_COUNTERS = ['oracle_evals', 'consumer_calls', 'provider_call_multisets_compared', 'mutation_snapshots_compared']
_S = {}


def setup(ctx):
  import gin
  provs = {}
  for i, api in enumerate(['configurable', 'register', 'external']):
    provs['prov%d' % i] = probes.build({'shape': 'fn', 'api': api, 'name': 'prov%d' % i, 'module': 'c4', 'pos': [], 'dflt': [['t', 'dflt-t']],
                                        'varargs': False, 'kwonly': [], 'varkw': False})
  _S['provs'] = provs
  _S['by_pid'] = {p.pid: n for n, p in provs.items()}
  from vf.checks import c01
  if 'c1.c1interrupt' not in gin.config._REGISTRY:
    c01.setup(ctx)
  _register_tgt_a()

  @gin.configurable('c4cons2', module='c4')
  def cons2(x=None, y=None):
    return (x, y)
  _S['cons2'] = cons2


# value trees: ['lit', v] | ['ref', prov, [scopes], evaluate] | ['macro', name] | ['list', items] | ['tuple', items] | ['dict', [[k, v]...]]
def gen_tree(rng, depth):
  r = rng.random()
  if depth <= 0 or r < 0.45:
    k = rng.random()
    if k < 0.25:
      return ['lit', rng.choice([1, 'x', None, 2.5, [1, 2], {'a': [0]}, (3, [4])])]
    if k < 0.85:
      scopes = [rng.choice(['s1', 's2']) for _ in range(rng.choice([0, 0, 1, 2]))]
      return ['ref', 'prov%d' % rng.randrange(3), scopes, rng.random() < 0.65]
    return ['macro', rng.choice(['m0', 'mm/m1'])]
  n = rng.choice([1, 2, 2, 3])
  if r < 0.65:
    return ['list', [gen_tree(rng, depth - 1) for _ in range(n)]]
  if r < 0.8:
    return ['tuple', [gen_tree(rng, depth - 1) for _ in range(n)]]
  items = []
  used = set()
  for i in range(n):
    key = ['lit', 'k%d' % i]
    if rng.random() < 0.25:
      pn = 'prov%d' % rng.randrange(3)
      if pn not in used:  # distinct keys only: equal keys collapse in any dict
        used.add(pn)
        key = ['ref', pn, [rng.choice(['s1', 's2'])] if rng.random() < 0.4 else [], False]
    items.append([key, gen_tree(rng, depth - 1)])
  return ['dict', items]


def tree_text(t):
  k = t[0]
  if k == 'lit':
    return repr(t[1])
  if k == 'ref':
    return '@' + '/'.join(t[2] + [t[1]]) + ('()' if t[3] else '')
  if k == 'macro':
    return '%' + t[1]
  if k == 'list':
    return '[' + ', '.join(tree_text(x) for x in t[1]) + ']'
  if k == 'tuple':
    return '(' + ', '.join(tree_text(x) for x in t[1]) + (',)' if len(t[1]) == 1 else ')')
  return '{' + ', '.join('%s: %s' % (tree_text(a), tree_text(b)) for a, b in t[1]) + '}'


def tree_feats(t, depth=0, ctxk=None, out=None):
  out = set() if out is None else out
  k = t[0]
  if k == 'ref':
    out.add(('ref:scoped-' if t[2] else 'ref:') + ('evaluated' if t[3] else 'unevaluated'))
    if ctxk:
      out.add('ref:' + ctxk)
    if depth >= 3:
      out.add('ref:depth3')
  elif k == 'macro':
    out.add('ref:macro')
    if depth >= 3:
      out.add('ref:depth3')
  elif k in ('list', 'tuple'):
    for x in t[1]:
      tree_feats(x, depth + 1, 'in-' + k, out)
  elif k == 'dict':
    for a, b in t[1]:
      tree_feats(a, depth + 1, 'as-dict-key', out)
      tree_feats(b, depth + 1, 'in-dict-value', out)
  return out


def iter_cases(ctx, rng, n):
  for i in range(n):
    if i % 25 == 11:
      yield {'kind': 'special', 'which': rng.choice(['target-reregistered', 'rebind-changes-only-the-scope']), 'nest': rng.choice(['bare', 'list', 'dict', 'tuple-in-list']),
             'via': rng.choice(['parse_config', 'bind_parameter']), 'scopes': rng.sample(['left', 'right', 'a/b', 'zz'], 2), 'drop_scope': rng.random() < 0.3,
             'evaluate': rng.random() < 0.7}
      continue
    nparams = rng.choice([1, 2, 3])
    spec = {'shape': rng.choice(['fn', 'fn', 'init']), 'api': rng.choice(['configurable', 'register', 'external']),
            'pos': ['p%d' % j for j in range(nparams)], 'dflt': [], 'varargs': False, 'kwonly': [], 'varkw': rng.random() < 0.35}
    trees = {'p%d' % j: gen_tree(rng, rng.choice([0, 1, 2, 3])) for j in range(nparams)}
    if spec['varkw']:
      trees['x0'] = gen_tree(rng, rng.choice([0, 1, 2]))   # a parameter only **kwargs can take
    graph = {'prov1': rng.choice([None, ['ref', 'prov0', [], True], ['ref', 'prov0', ['g1'], True]]),
             'prov2': rng.choice([None, None, ['ref', 'prov1', [], True], ['ref', 'prov1', ['g2'], True], ['list', [['ref', 'prov0', [], True], ['ref', 'prov1', [], False]]]])}
    macros = {'m0': rng.choice([['ref', 'prov0', [], True], ['ref', 'prov1', ['ms'], True], ['lit', [1, [2]]]]),
              'mm/m1': rng.choice([['ref', 'prov2', [], True], ['list', [['ref', 'prov0', [], True]]]])}
    calls = []
    for _ in range(rng.choice([1, 2, 3, 4, 5])):
      ambient = [rng.choice(['a', 'b', 's1']) for _ in range(rng.choice([0, 0, 1, 2, 3]))]
      over = {}
      prefix = True
      for j in range(nparams):
        r = rng.random()
        if r < 0.2 and prefix:
          over['p%d' % j] = 'pos'
        else:
          prefix = False
          if r < 0.45:
            over['p%d' % j] = 'kw'
      if spec['varkw'] and rng.random() < 0.5:
        over['x0'] = 'kw'
      calls.append({'ambient': ambient, 'over': over, 'mutate': rng.random() < 0.8, 'fn_scope': [rng.choice(['q', 'a'])] if rng.random() < 0.5 else [],
                    'interrupted_scoped_call_before': rng.random() < 0.15})
    yield {'spec': spec, 'trees': trees, 'graph': graph, 'macros': macros, 'calls': calls,
           'bind_scope': rng.choice(['', '', 'a']), 'parse_scope': rng.choice([None, None, 'b', 'a/s1', 'zz'])}


# ---- the model: walk a tree, produce the expected provider calls and the delivered shape
def model_eval(t, ambient, case, calls):
  """Returns shape of the delivered value; appends (prov, scope) to calls for every provider run."""
  k = t[0]
  if k == 'lit':
    return lit_shape(t[1])
  if k == 'ref':
    name, scopes, ev = t[1], t[2], t[3]
    if not ev:
      return ('fn', name, tuple(scopes))
    return model_call(name, scopes or ambient, case, calls)
  if k == 'macro':
    mscope = t[1].split('/')
    return model_eval(case['macros'][t[1]], mscope, case, calls)
  if k in ('list', 'tuple'):
    return (k, tuple(model_eval(x, ambient, case, calls) for x in t[1]))
  return ('dict', tuple((model_eval(a, ambient, case, calls), model_eval(b, ambient, case, calls)) for a, b in t[1]))


def lit_shape(v):
  if type(v) in (list, tuple):
    return (type(v).__name__, tuple(lit_shape(x) for x in v))
  if type(v) is dict:
    return ('dict', tuple((lit_shape(a), lit_shape(b)) for a, b in v.items()))
  return ('lit', canon(v))


def model_call(name, scope, case, calls):
  calls.append((name, tuple(scope)))
  g = case['graph'].get(name)
  tshape = lit_shape('dflt-t') if g is None else model_eval(g, list(scope), case, calls)
  return ('prov', name, tshape)


def shape_of(v, ctx, fn_scope, calls_seen):
  """Shape of a delivered value; delivered configurables are *called* (under fn_scope) to see what they are."""
  import gin
  if isinstance(v, list) and len(v) == 3 and v[0] == 'ret' and v[1] in _S['by_pid']:
    rec = _S['last_recs'].get(id(v))
    name = _S['by_pid'][v[1]]
    t = rec.received['t'] if rec else None
    return ('prov', name, shape_of(t, ctx, fn_scope, calls_seen))
  if callable(v) and not isinstance(v, type) or (isinstance(v, type)):
    mark = probes.RECORDER.mark()
    try:
      with gin.config_scope(list(fn_scope)):
        v()
    except Exception as e:  # pylint: disable=broad-except
      return ('fn-raised', repr(e))
    recs = probes.RECORDER.since(mark)
    ctx.bucket('delivered-fn-called')
    if not recs:
      return ('fn-unknown',)
    first = recs[-1]  # the delivered configurable's own body runs last (its arguments are evaluated first)
    calls_seen.append([(_S['by_pid'].get(r.pid, r.pid), r.scope) for r in recs])
    return ('fn-called', _S['by_pid'].get(first.pid, first.pid), first.scope)
  if type(v) in (list, tuple):
    return (type(v).__name__, tuple(shape_of(x, ctx, fn_scope, calls_seen) for x in v))
  if type(v) is dict:
    return ('dict', tuple((shape_of(a, ctx, fn_scope, calls_seen), shape_of(b, ctx, fn_scope, calls_seen)) for a, b in v.items()))
  return ('lit', canon(v))


def model_shape_called(shape, fn_scope, case, fcalls):
  """Transforms ('fn', name, scopes) leaves of the model shape into what calling them under fn_scope must show."""
  if shape[0] == 'fn':
    calls = []
    model_call(shape[1], list(shape[2]) or list(fn_scope), case, calls)
    fcalls.append(calls)
    return ('fn-called', shape[1], tuple(shape[2]) or tuple(fn_scope))
  if shape[0] in ('list', 'tuple'):
    return (shape[0], tuple(model_shape_called(x, fn_scope, case, fcalls) for x in shape[1]))
  if shape[0] == 'dict':
    return ('dict', tuple((model_shape_called(a, fn_scope, case, fcalls), model_shape_called(b, fn_scope, case, fcalls)) for a, b in shape[1]))
  if shape[0] == 'prov':
    return ('prov', shape[1], model_shape_called(shape[2], fn_scope, case, fcalls))
  return shape


def mutate(v, depth=0):
  n = 0
  if isinstance(v, list):
    for x in list(v):
      n += mutate(x, depth + 1)
    v.append('MUT')
    if len(v) > 1:
      v.pop(0)
    v.insert(0, ['MUT2'])
    n += 1
  elif isinstance(v, dict):
    for x in list(v.values()):
      n += mutate(x, depth + 1)
    v['MUT'] = 1
    for k in list(v):
      if k != 'MUT':
        del v[k]
        break
    n += 1
  elif isinstance(v, tuple):
    for x in v:
      n += mutate(x, depth + 1)
  return n


def _nest(nest, ref_text):
  return {'bare': ref_text, 'list': '[1, %s]' % ref_text, 'dict': "{'k': %s}" % ref_text, 'tuple-in-list': '[(%s, 2)]' % ref_text}[nest]


def _unnest(nest, v):
  return {'bare': lambda: v, 'list': lambda: v[1], 'dict': lambda: v['k'], 'tuple-in-list': lambda: v[0][0]}[nest]()


def run_special(ctx, case):
  import gin
  from gin import config as gc
  gin.clear_config()
  ctx.bucket('special:' + case['which'])
  s1, s2 = case['scopes']
  ev = '()' if case['evaluate'] else ''

  def deliver():
    got = _S['cons2']()
    v = _unnest(case['nest'], got[0])
    return v() if not case['evaluate'] else v       # an unevaluated reference delivers the (scoped) configurable: call it here

  if case['which'] == 'rebind-changes-only-the-scope':
    # two references that differ only in their scope are different values: re-binding must take effect
    gin.parse_config('c4cons2.x = %s\n' % _nest(case['nest'], '@%s/c4tgt%s' % (s1, ev)))
    first = deliver()
    ctx.check(first == ('A', s1.split('/')), 'reference-ran-under-other-scope', 'x = %s delivered %r' % (_nest(case['nest'], '@%s/c4tgt%s' % (s1, ev)), first))
    new_ref = '@c4tgt%s' % ev if case['drop_scope'] else '@%s/c4tgt%s' % (s2, ev)
    want_scope = [] if case['drop_scope'] else s2.split('/')
    if case['via'] == 'parse_config':
      gin.parse_config('c4cons2.x = %s\n' % _nest(case['nest'], new_ref))
    else:
      gin.bind_parameter('c4cons2.x', gc.parse_value(_nest(case['nest'], new_ref)))
    second = deliver()
    ctx.check(second == ('A', want_scope), 'rebinding-to-reference-with-other-scope-ignored',
              'x re-bound (%s) from %s to %s: the consumer received %r, expected the target run under %r' % (case['via'], '@%s/c4tgt%s' % (s1, ev), new_ref, second, want_scope))
    q = repr(gin.query_parameter('c4cons2.x'))
    ctx.check(new_ref in q, 'rebinding-to-reference-with-other-scope-ignored', 'query_parameter after the re-binding shows %s, expected %s inside' % (q, new_ref))
    ctx.fp('special', case['which'], case['nest'], case['via'], case['drop_scope'], case['evaluate'])
    return
  # target-reregistered: references made after a configurable was registered again deliver the new registration, scoped or not
  try:
    text = 'c4cons2.x = %s\nc4cons2.y = %s\n' % (_nest(case['nest'], '@%s/c4tgt%s' % (s1, ev)), _nest(case['nest'], '@c4tgt%s' % ev))
    gin.parse_config(text)
    first = deliver()
    ctx.check(first == ('A', s1.split('/')), 'reference-ran-under-other-scope', 'before re-registration: %r' % (first,))
    with gc.interactive_mode():
      @gin.configurable('c4tgt', module='c4')
      def tgt_b():                      # registered again under the same name: a new implementation
        return ('B', gin.current_scope())
    if case['via'] == 'parse_config':
      gin.parse_config(text)
    else:
      gin.bind_parameter('c4cons2.x', gc.parse_value(_nest(case['nest'], '@%s/c4tgt%s' % (s1, ev))))
      gin.bind_parameter('c4cons2.y', gc.parse_value(_nest(case['nest'], '@c4tgt%s' % ev)))
    got = _S['cons2']()
    vx, vy = _unnest(case['nest'], got[0]), _unnest(case['nest'], got[1])
    if not case['evaluate']:
      vx, vy = vx(), vy()
    ctx.check(vy == ('B', []), 'reference-delivers-stale-registration', 'unscoped reference made after the re-registration delivered %r' % (vy,))
    ctx.check(vx == ('B', s1.split('/')), 'reference-delivers-stale-registration',
              'scoped reference @%s/c4tgt%s made after the re-registration delivered %r, the unscoped one %r' % (s1, ev, vx, vy))
    sg = gin.get_configurable('%s/c4tgt' % s1)()
    ctx.check(sg == ('B', s1.split('/')), 'reference-delivers-stale-registration', "get_configurable('%s/c4tgt')() after the re-registration returned %r" % (s1, sg))
    ctx.fp('special', case['which'], case['nest'], case['via'], case['evaluate'])
  finally:
    with gc.interactive_mode():
      _register_tgt_a()


def _register_tgt_a():
  import gin

  @gin.configurable('c4tgt', module='c4')
  def tgt_a():
    return ('A', gin.current_scope())


def run_case(ctx, case):
  import gin
  if case.get('kind') == 'special':
    return run_special(ctx, case)
  gin.clear_config()
  spec = case['spec']
  p = probes.build(spec)
  lines = []
  for name, g in case['graph'].items():
    if g is not None:
      lines.append('%s.t = %s' % (name, tree_text(g)))
  for m, t in case['macros'].items():
    lines.append('%s = %s' % (m, tree_text(t)))
  pre = case['bind_scope'] + '/' if case['bind_scope'] else ''
  for prm, t in case['trees'].items():
    lines.append('%s%s.%s = %s' % (pre, p.name, prm, tree_text(t)))
  lines.append('c1pre/c1cons.x = @leaked2/c1interrupt()')
  text = '\n'.join(lines) + '\n'
  if case.get('parse_scope'):
    # the scope that happens to be open while the config is *parsed* is irrelevant: unscoped references run under the scope of the consuming call
    ctx.bucket('parsed-inside-a-scope')
    with gin.config_scope(case['parse_scope']):
      gin.parse_config(text)
  else:
    gin.parse_config(text)
  feats = set()
  for t in case['trees'].values():
    feats |= tree_feats(t)
  for f in feats:
    ctx.bucket(f)
  if any(g is not None for g in case['graph'].values()):
    ctx.bucket('graph:nested-provider')
  if case['graph']['prov2'] and case['graph']['prov2'][0] == 'ref' and case['graph']['prov2'][2] and case['graph']['prov1'] and not case['graph']['prov1'][2]:
    ctx.bucket('graph:scoped-outer-unscoped-inner')
  if len(case['calls']) >= 3:
    ctx.bucket('calls:3+')
  keys = ['%s%s.%s' % (pre, p.name, prm) for prm in case['trees']]
  base_snap = None
  seen_ids = set()
  keep_alive = []
  ctx.fp(tuple(sorted(feats)), tuple(len(c['ambient']) for c in case['calls']), tuple(tuple(sorted(c['over'].items())) for c in case['calls']),
         spec['shape'], spec['api'], bool(case['bind_scope']))
  ctx.sample({'config': text, 'calls': case['calls']}, cap=3)

  for ci, call in enumerate(case['calls']):
    ambient = call['ambient']
    if call.get('interrupted_scoped_call_before'):
      # a scoped reference / scoped configurable left by a BaseException must not leave its scope behind
      from vf.checks import c01
      ctx.bucket('history:scoped-reference-left-by-BaseException')
      c01.prelude(gin, bind=False)
    ctx.bucket('ambient:depth0' if not ambient else ('ambient:depth2+' if len(ambient) >= 2 else 'ambient:depth1'))
    snap_before = (gin.config_str(), [canon(gin.query_parameter(k)) for k in keys],
                   canon(gin.get_bindings(p.selector, resolve_references=False)), snap.store_nonempty())
    if base_snap is None:
      base_snap = snap_before
    else:
      ctx.count('mutation_snapshots_compared')
      ctx.check(snap_before == base_snap, 'config-changed-by-consumer-mutation',
                'after the consumer mutated what it received, config_str/query/get_bindings/store differ: %r' % (snap.diff(base_snap[3], snap_before[3]),))
    applies = (not case['bind_scope']) or (ambient[:1] == [case['bind_scope']])
    P, K = [], {}
    exp_calls, exp_shapes = [], {}
    params = spec['pos'] + (['x0'] if spec['varkw'] else [])
    for prm in params:
      o = call['over'].get(prm)
      is_ev = 'ref:evaluated' in tree_feats(case['trees'][prm]) or 'ref:scoped-evaluated' in tree_feats(case['trees'][prm]) or 'ref:macro' in tree_feats(case['trees'][prm])
      if o == 'pos':
        P.append(['caller', prm])
        ctx.bucket('override:positional')
        if is_ev and applies:
          ctx.bucket('override:positional-on-evaluated-ref')
      elif o == 'kw':
        K[prm] = ['caller', prm]
        ctx.bucket('override:keyword')
        if prm == 'x0':
          ctx.bucket('override:keyword-on-varkw-parameter')
        if is_ev and applies:
          ctx.bucket('override:keyword-on-evaluated-ref')
      else:
        ctx.bucket('override:none')
        if applies:
          exp_shapes[prm] = model_eval(case['trees'][prm], ambient, case, exp_calls)
    mark = probes.RECORDER.mark()
    exc = None
    try:
      with gin.config_scope(list(ambient)):
        probes.call_probe(p, P, K)
    except TypeError as e:
      exc = e
    recs = probes.RECORDER.since(mark)
    ctx.count('consumer_calls')
    missing = [prm for prm in spec['pos'] if prm not in exp_shapes and call['over'].get(prm) is None]
    if 'x0' in params and 'x0' not in exp_shapes and call['over'].get('x0') is None:
      pass  # an unbound, unsupplied **kwargs name is simply absent
    if missing:
      ctx.check(isinstance(exc, TypeError), 'expected-TypeError', 'parameters %r unbound under %r but call gave %r' % (missing, ambient, exc))
      # providers of the parameters that *are* bound may legitimately have run before the TypeError
      continue
    if not ctx.check(exc is None, 'unexpected-exception', 'consumer call raised %r' % (exc,)):
      continue
    prov_recs = [r for r in recs if r.pid in _S['by_pid']]
    cons = [r for r in recs if r.pid == p.pid]
    got_calls = sorted((_S['by_pid'][r.pid], r.scope) for r in prov_recs)
    ctx.count('provider_call_multisets_compared')
    key = 'provider-calls-differ'
    if sorted(exp_calls) != got_calls:
      over_kw = [prm for prm, o in call['over'].items() if o == 'kw']
      extra = list(got_calls)
      for c in exp_calls:
        if c in extra:
          extra.remove(c)
      if over_kw and len(got_calls) > len(exp_calls) and all(c in got_calls for c in exp_calls):
        key = 'reference-evaluated-for-caller-keyword-argument'
    ctx.check(sorted(exp_calls) == got_calls, key,
              'call %d under %r (overrides %r): providers ran as %r, model %r' % (ci, ambient, call['over'], got_calls, sorted(exp_calls)))
    if not ctx.check(len(cons) == 1, 'consumer-run-count', 'consumer ran %d times' % len(cons)):
      continue
    received = dict(cons[0].received)
    if spec['varkw']:
      received.update(received.get('**') or {})
    _S['last_recs'] = {}
    # map provider return objects to their records (returned lists are ["ret", pid, n]); identify via (pid, n)
    by_pn = {}
    for r in prov_recs:
      by_pn.setdefault(r.pid, []).append(r)
    def index(v):
      if isinstance(v, list) and len(v) == 3 and v[0] == 'ret' and v[1] in by_pn:
        same = [r for r in by_pn[v[1]]]
        # n-th call of this provider in the worker == v[2]; records keep order, so match by counting from the end
        _S['last_recs'][id(v)] = _match(v, same)
        keep_alive.append(v)
        ctx.check(id(v) not in seen_ids, 'evaluated-reference-result-not-fresh', 'an evaluated reference delivered an object seen in an earlier call')
        seen_ids.add(id(v))
        rec = _S['last_recs'][id(v)]
        if rec is not None:
          index(rec.received.get('t'))
      elif type(v) in (list, tuple):
        for x in v:
          index(x)
      elif type(v) is dict:
        for a, b in v.items():
          index(a)
          index(b)
    present = [prm for prm in params if prm in received]
    for prm in present:
      index(received[prm])
    for prm in present:
      if prm in exp_shapes:
        fcalls_m, fcalls_g = [], []
        want = model_shape_called(exp_shapes[prm], call['fn_scope'], case, fcalls_m)
        got = shape_of(received[prm], ctx, call['fn_scope'], fcalls_g)
        ctx.check(got == want, 'delivered-value-differs', 'call %d under %r: %s delivered %r, model %r' % (ci, ambient, prm, got, want))
        ctx.check(sorted(map(sorted, fcalls_m)) == sorted(map(sorted, fcalls_g)), 'delivered-configurable-runs-differ',
                  'calling delivered configurables under %r ran %r, model %r' % (call['fn_scope'], fcalls_g, fcalls_m))
      else:
        ctx.check(received[prm] == ['caller', prm] and (received[prm] is (P + list(K.values()))[[x[1] for x in P + list(K.values())].index(prm)]),
                  'caller-value-replaced', 'caller value for %s replaced by %r' % (prm, received[prm]))
    if call['mutate']:
      n = sum(mutate(received[prm]) for prm in present)
      if n:
        ctx.bucket('mutation:applied')
  snap_after = (gin.config_str(), [canon(gin.query_parameter(k)) for k in keys],
                canon(gin.get_bindings(p.selector, resolve_references=False)), snap.store_nonempty())
  ctx.count('mutation_snapshots_compared')
  ctx.check(snap_after == base_snap, 'config-changed-by-consumer-mutation',
            'after the last call config_str/query/get_bindings/store differ from before the first: %r' % (snap.diff(base_snap[3], snap_after[3]),))


def _match(v, recs):
  # provider probes number their results from a per-probe counter starting at 0 in call order
  n = v[2]
  allrecs = [r for r in probes.RECORDER.log if r.pid == v[1]]
  return allrecs[n] if n < len(allrecs) else None


LEVEL_TEXT = ('Runtime monitor with a reference model of reference evaluation: for every consumer call the exact multiset of (provider, observed '
              'scope) runs, the delivered structure (delivered configurables are called to see what and where they run), freshness of evaluated '
              'results and non-replacement of caller values are compared with a model walk of the bound value trees; config_str, query_parameter, '
              'get_bindings and the store are snapshotted around consumer mutations.')
LEVEL_NOTE = 'Trusted: the model walk (~40 lines). get_bindings(resolve_references=False)/query_parameter returning stored objects is by design (DESIGN X).'
TECHNIQUE = 'runtime reference-model monitor with call-counting provider probes over generated reference trees, scopes and mutation histories'
DESIGN_REF = 'DESIGN.md section 4, C04'
