"""C04 — references deliver the configurable or a fresh result, in the right scope."""
from vf import probes, snap
from vf.teq import canon, teq

ID = 'C04'
LEVEL = 'exploration'
RULE = ('consumer probes whose parameters are bound (by config text) to value trees containing @p, @p(), @s1/s2/p(), %macro (bound to an '
        'evaluated reference) at depth 0-3 inside lists/tuples/dict values/dict keys; acyclic provider graphs of depth<=3 (scoped outer reference '
        'whose own parameter holds an unscoped inner one); ambient scope programs; per-parameter caller override positional/keyword/none; call '
        'sequences of length 1-5 in which the consumer mutates everything it received at every depth. Oracle: model walk of each Gin-supplied '
        'value tree -> exact multiset of (provider, observed scope) calls per consumer call, zero calls for caller-supplied parameters, fresh '
        'identities across calls, delivered structure; queries/config strings/next reception unchanged by consumer mutation. '
        'Extension: providers are also classes (configurable / external_configurable / register with a registered method), referenced scoped and unscoped, '
        'evaluated (also as dict keys) and unevaluated, with dotted scopes and module-qualified names; the providers own scoped bindings (s1/prov0.t, longest '
        'prefix wins) show under which scope they ran; callers pass None / falsy values / gin.REQUIRED positionally and by keyword; the ambient scope comes '
        'about through lists, nested strings, a/b strings, config_scope(None), get_configurable(\'a/b/cons\'); between calls: re-bound provider parameter, '
        're-bound macro, finalize, a second parse; a provider raising an ordinary exception mid-container; unscoped @name is the registered configurable '
        'object; operative_config_str() around the mutation; get_bindings(resolve_references=True) under the caller scope against the model. '
        'Second extension: dict keys that differ in nothing but the reference scope (@s1/p, @s2/p, @p in one dict) and macros as dict keys (two macros side by side); '
        'no provider runs during parsing, parse_config_files_and_bindings(finalize_config=True), finalize, re-binding, unresolved queries or config strings '
        '(parameters bound to a macro as a whole whose value holds evaluated references); references to configurable generator functions whose results are '
        'read lazily (by the consumer or after it) and stay suspended across the consumer calls until exhausted / closed / dropped: the active scope while they '
        'are suspended, their items (scoped bindings of the generator function) and everything the main model says about the calls in between. '
        'Special: a reference written (skip_unknown) before its target was registered - refused or, if delivered, run under exactly the written scope. '
        'distinct = (tree shape, reference kinds, ambient depth, override pattern, #calls, scoped provider bindings, ambient program, between-ops, caller values)')
TIERS = {
    'quick': {'workers': 8, 'cases': 1000, 'timeout': 600},
    'thorough': {'workers': 16, 'cases': 15000, 'timeout': 3000},
}
REQUIRED_BUCKETS = ['ref:unevaluated', 'ref:evaluated', 'ref:scoped-evaluated', 'ref:scoped-unevaluated', 'ref:macro', 'ref:in-list', 'ref:in-tuple', 'ref:in-dict-value',
                    'ref:as-dict-key', 'ref:depth3', 'graph:nested-provider', 'graph:scoped-outer-unscoped-inner', 'ambient:depth0', 'ambient:depth2+',
                    'override:positional', 'override:keyword', 'override:none', 'calls:3+', 'mutation:applied', 'delivered-fn-called',
                    'override:keyword-on-evaluated-ref', 'override:positional-on-evaluated-ref', 'history:scoped-reference-left-by-BaseException', 'parsed-inside-a-scope', 'override:keyword-on-varkw-parameter', 'special:target-reregistered', 'special:rebind-changes-only-the-scope']
ORACLE_COUNTERS = ['oracle_evals', 'consumer_calls', 'provider_call_multisets_compared', 'mutation_snapshots_compared']
# extension wave (audit gaps 1-8): every bucket below must be hit in every run
REQUIRED_BUCKETS += ['provider:class-configurable', 'provider:class-external', 'provider:class-registered-with-method', 'ref:scoped-class-evaluated',
                     'ref:scoped-class-unevaluated', 'ref:evaluated-as-dict-key', 'ref:dotted-scope', 'ref:module-qualified', 'graph:scoped-provider-binding-used',
                     'override:None-on-evaluated-ref', 'override:falsy-on-evaluated-ref', 'override:REQUIRED-keyword-on-evaluated-ref',
                     'override:REQUIRED-positional-on-evaluated-ref', 'snapshot:operative-config-around-mutation', 'between:rebind-graph', 'between:rebind-macro',
                     'between:finalize', 'between:reparse', 'query:get_bindings-resolved', 'ambient-how:nested-str', 'ambient-how:slash-str', 'ambient-how:inside-other',
                     'ambient-how:none-then', 'ambient-how:get_configurable', 'identity:unscoped-unevaluated-is-the-configurable',
                     'history:evaluated-reference-raised-mid-container', 'history:call-after-raising-reference']
ORACLE_COUNTERS += ['get_bindings_resolved_compared', 'operative_snapshots_compared', 'identity_checks']
# second extension wave (changes that were missed at first): every bucket below must be hit in every run
REQUIRED_BUCKETS += ['ref:sibling-keys-differ-only-in-scope', 'ref:macro-as-dict-key', 'ref:two-macros-as-sibling-keys', 'ref:top-level-macro-holding-evaluated-reference',
                     'quiet:finalize-with-evaluated-reference-behind-top-level-macro', 'quiet:parse', 'quiet:snapshot', 'parse-via:files_and_bindings-finalize',
                     'lazy:generator-held-across-consumer-calls', 'lazy:scoped-evaluated', 'lazy:scoped-unevaluated', 'lazy:unscoped-evaluated', 'lazy:read-by-consumer',
                     'lazy:read-by-harness', 'lazy:released-exhaust', 'lazy:released-close', 'lazy:released-drop', 'lazy:held-until-the-end', 'lazy:consumer-called-twice']
ORACLE_COUNTERS += ['quiet_periods_checked', 'lazy_generators_read']
KEY_MACROS = ['k0', 'kk/k1']             # macros whose values are hashable: usable as dict keys
GEN_PROVS = ['gen0', 'gen1']              # configurable generator functions (what they deliver is read lazily)
P_HOLD = 0.12                             # share of cases in which partly read generators stay suspended across the consumer calls
REF_SCOPES = ['s1', 's2', 'd.e']          # 'd.e': a scope name may contain dots
CLS_PROVS = ['Prov3', 'Prov4', 'Prov5']   # classes: @gin.configurable, external_configurable, gin.register + a registered method
P_OPSNAP = 0.12                           # share of mutating calls around which operative_config_str() is snapshotted (costly)
_S = {}


def setup(ctx):
  import gin
  provs = {}
  for i, api in enumerate(['configurable', 'register', 'external']):
    provs['prov%d' % i] = probes.build({'shape': 'fn', 'api': api, 'name': 'prov%d' % i, 'module': 'c4', 'pos': [], 'dflt': [['t', 'dflt-t']],
                                        'varargs': False, 'kwonly': [], 'varkw': False})
  _S['provs'] = provs
  _S['by_pid'] = {p.pid: n for n, p in provs.items()}
  from vf.checks import c01
  if 'c1.c1interrupt' not in gin.config._REGISTRY:
    c01.setup(ctx)
  _register_tgt_a()

  @gin.configurable('c4cons2', module='c4')
  def cons2(x=None, y=None):
    return (x, y)
  _S['cons2'] = cons2
  _S['xprovs'], _S['xby_pid'] = {}, {}
  if getattr(ctx, 'pid', None) == ID:   # c05/c07 reuse setup() for prov0..2 only: their registries stay as they were
    _setup_ext()


class _P:
  pass


def _setup_ext():
  """Providers beyond plain functions: three classes (one per registration API, one of them with a registered method) and a
  function that raises an ordinary exception while the harness asks it to."""
  import itertools
  import gin
  xp = {}
  for name, api in [('Prov3', 'configurable'), ('Prov4', 'external')]:
    xp[name] = probes.build({'shape': 'init', 'api': api, 'name': name, 'module': 'c4', 'pos': [], 'dflt': [['t', 'dflt-t']],
                             'varargs': False, 'kwonly': [], 'varkw': False})
  # gin.register on a class that has a registered method: the scoped reference is then a subclass overriding the method
  p5 = _P()
  p5.pid, p5.name = 'c4p5', 'Prov5'
  g = {'VF_rec': probes.RECORDER.rec, 'VF_PID': p5.pid, '__name__': 'vfprobes'}
  exec('class Prov5:\n  """doc of Prov5"""\n  def __init__(self, t="dflt-t"):\n    self.rec = VF_rec(VF_PID, {"t": t})\n'  # pylint: disable=exec-used
       '  def meth(self, u="dflt-u"):\n    return u\n', g)
  p5.original = g['Prov5']
  gin.register(module=None)(p5.original.__dict__['meth'])
  gin.register('Prov5', module='c4')(p5.original)
  p5.conf = gin.get_configurable(p5.original)
  xp['Prov5'] = p5
  r = _P()
  r.pid, r.name = 'c4raiser', 'raiser'
  ctr = itertools.count()

  def raiser(t='dflt-t'):
    probes.RECORDER.rec(r.pid, {'t': t})
    n = next(ctr)                     # the n-th record of this provider belongs to its n-th run, raised or not
    if _S.get('raise_now'):
      raise ValueError('c4-raiser asked to raise')
    return ['ret', r.pid, n]
  r.original = raiser
  r.conf = gin.configurable('raiser', module='c4')(raiser)
  xp['raiser'] = r
  _S['xprovs'] = xp
  _S['xby_pid'] = {p.pid: n for n, p in xp.items()}
  _setup_lazy()


def _leaves(v):
  """The non-container leaves of a delivered value, in order (lists, tuples, dict values)."""
  if type(v) in (list, tuple):
    for x in v:
      yield from _leaves(x)
  elif type(v) is dict:
    for x in v.values():
      yield from _leaves(x)
  else:
    yield v


def _setup_lazy():
  """Two configurable generator functions (one per registration API) and a consumer that reads the generators it is given lazily:
  a few items only, so that they stay suspended while it (and whoever comes after it) goes on using Gin."""
  import types
  import gin

  def gen0(n=2, tag='dflt-tag'):
    for i in range(n):
      yield (tag, i)

  def gen1(n=2, tag='dflt-tag'):
    i = 0
    while i < n:
      yield (tag, i)
      i += 1
  _S['gens'] = {'gen0': gin.configurable('gen0', module='c4')(gen0), 'gen1': gin.external_configurable(gen1, 'gen1', module='c4')}

  @gin.configurable('c4lazy', module='c4')
  def lazy(x=None):
    cfg = _S.get('lazy') or {}
    taken = []
    for g in _leaves(x):
      taken.append([next(g) for _ in range(cfg.get('take', 0))] if isinstance(g, types.GeneratorType) else None)
    mid = gin.current_scope()                   # what Gin considers active while the generators are suspended
    inner = _S['provs']['prov0'].conf() if cfg.get('inner') else None
    return x, taken, mid, inner
  _S['lazy_fn'] = lazy


def _pname(pid):
  return _S['by_pid'].get(pid) or _S['xby_pid'].get(pid)


def _prov(name):
  return _S['provs'].get(name) or _S['xprovs'].get(name)


def _base(name):
  """'c4.prov0' (module-qualified, as written in a reference) -> 'prov0'."""
  return name.rsplit('.', 1)[-1]


# value trees: ['lit', v] | ['ref', prov, [scopes], evaluate] | ['macro', name] | ['list', items] | ['tuple', items] | ['dict', [[k, v]...]]
def gen_ref(rng):
  scopes = [rng.choice(REF_SCOPES) for _ in range(rng.choice([0, 0, 1, 2]))]
  r = rng.random()
  name = 'prov%d' % rng.randrange(3) if r < 0.66 else (rng.choice(CLS_PROVS) if r < 0.94 else 'raiser')
  if rng.random() < 0.1:
    name = 'c4.' + name            # module-qualified, as a config file written against a bigger code base would
  return ['ref', name, scopes, rng.random() < 0.65]


def gen_tree(rng, depth):
  r = rng.random()
  if depth <= 0 or r < 0.45:
    k = rng.random()
    if k < 0.25:
      return ['lit', rng.choice([1, 'x', None, 2.5, [1, 2], {'a': [0]}, (3, [4])])]
    if k < 0.85:
      return gen_ref(rng)
    return ['macro', rng.choice(['m0', 'mm/m1', 'm0', 'mm/m1'] + KEY_MACROS)]
  n = rng.choice([1, 2, 2, 3])
  if r < 0.65:
    return ['list', [gen_tree(rng, depth - 1) for _ in range(n)]]
  if r < 0.8:
    return ['tuple', [gen_tree(rng, depth - 1) for _ in range(n)]]
  items = []
  used = set()
  last = {}
  for i in range(n):
    key = ['lit', 'k%d' % i]
    kr = rng.random()
    # keys that are written differently are different keys: '@s1/p', '@s2/p' and '@p' in one dict are three references, each delivered (only the
    # very same text twice is one key, as in any dict literal); sibling keys often point at the same provider and differ in nothing but the scope
    if kr < 0.25:
      pn = last[False] if False in last and rng.random() < 0.5 else 'prov%d' % rng.randrange(3)
      sc = [rng.choice(['s1', 's2'])] if rng.random() < 0.5 else []
      if (pn, tuple(sc), False) not in used:
        used.add((pn, tuple(sc), False))
        last[False] = pn
        key = ['ref', pn, sc, False]
    elif kr < 0.4:
      # an evaluated reference as a key: the provider's result must be hashable (an instance of a class provider); every evaluation is a new key
      pn = last[True] if True in last and rng.random() < 0.5 else rng.choice(CLS_PROVS)
      sc = [rng.choice(REF_SCOPES)] if rng.random() < 0.5 else []
      if (pn, tuple(sc), True) not in used:
        used.add((pn, tuple(sc), True))
        last[True] = pn
        key = ['ref', pn, sc, True]
    elif kr < 0.5 or (kr < 0.75 and any(m in used for m in KEY_MACROS)):
      mk = rng.choice(KEY_MACROS)      # a macro as a key (two different macros are two keys); their values are hashable and differ
      if mk not in used:
        used.add(mk)
        key = ['macro', mk]
    items.append([key, gen_tree(rng, depth - 1)])
  return ['dict', items]


def key_feats(t, out=None):
  """Features of the dict keys of a tree (kept apart from tree_feats, which other checks use on their own trees)."""
  out = set() if out is None else out
  if t[0] in ('list', 'tuple'):
    for x in t[1]:
      key_feats(x, out)
  elif t[0] == 'dict':
    refs, macros = {}, set()
    for a, b in t[1]:
      if a[0] == 'ref':
        refs.setdefault((_base(a[1]), a[3]), set()).add(tuple(a[2]))
      elif a[0] == 'macro':
        macros.add(a[1])
      key_feats(b, out)
    if any(len(v) > 1 for v in refs.values()):
      out.add('ref:sibling-keys-differ-only-in-scope')
    if macros:
      out.add('ref:macro-as-dict-key')
    if len(macros) > 1:
      out.add('ref:two-macros-as-sibling-keys')
  return out


def has_evaluated(t, macros):
  """Does the tree contain an evaluated reference at any depth, macros followed?"""
  if t[0] == 'ref':
    return bool(t[3])
  if t[0] == 'macro':
    return has_evaluated(macros[t[1]], macros)
  if t[0] in ('list', 'tuple'):
    return any(has_evaluated(x, macros) for x in t[1])
  if t[0] == 'dict':
    return any(has_evaluated(a, macros) or has_evaluated(b, macros) for a, b in t[1])
  return False


def tree_text(t):
  k = t[0]
  if k == 'lit':
    return repr(t[1])
  if k == 'ref':
    return '@' + '/'.join(t[2] + [t[1]]) + ('()' if t[3] else '')
  if k == 'macro':
    return '%' + t[1]
  if k == 'list':
    return '[' + ', '.join(tree_text(x) for x in t[1]) + ']'
  if k == 'tuple':
    return '(' + ', '.join(tree_text(x) for x in t[1]) + (',)' if len(t[1]) == 1 else ')')
  return '{' + ', '.join('%s: %s' % (tree_text(a), tree_text(b)) for a, b in t[1]) + '}'


def tree_feats(t, depth=0, ctxk=None, out=None):
  out = set() if out is None else out
  k = t[0]
  if k == 'ref':
    out.add(('ref:scoped-' if t[2] else 'ref:') + ('evaluated' if t[3] else 'unevaluated'))
    if ctxk:
      out.add('ref:' + ctxk)
    # (the features below only arise from this check's own generator: other checks' trees never contain these shapes)
    if _base(t[1]) in CLS_PROVS:
      out.add('provider:class-' + {'Prov3': 'configurable', 'Prov4': 'external', 'Prov5': 'registered-with-method'}[_base(t[1])])
      if t[2]:
        out.add('ref:scoped-class-' + ('evaluated' if t[3] else 'unevaluated'))
    if ctxk == 'as-dict-key' and t[3]:
      out.add('ref:evaluated-as-dict-key')
    if any('.' in sc for sc in t[2]):
      out.add('ref:dotted-scope')
    if '.' in t[1]:
      out.add('ref:module-qualified')
    if _base(t[1]) == 'raiser' and t[3]:
      out.add('ref:evaluated-raiser')
    if depth >= 3:
      out.add('ref:depth3')
  elif k == 'macro':
    out.add('ref:macro')
    if depth >= 3:
      out.add('ref:depth3')
  elif k in ('list', 'tuple'):
    for x in t[1]:
      tree_feats(x, depth + 1, 'in-' + k, out)
  elif k == 'dict':
    for a, b in t[1]:
      tree_feats(a, depth + 1, 'as-dict-key', out)
      tree_feats(b, depth + 1, 'in-dict-value', out)
  return out


def iter_cases(ctx, rng, n):
  for i in range(n):
    if i % 25 == 11:
      yield {'kind': 'special', 'which': rng.choice(['target-reregistered', 'rebind-changes-only-the-scope', 'target-registered-after-parse']), 'nest': rng.choice(['bare', 'list', 'dict', 'tuple-in-list']),
             'via': rng.choice(['parse_config', 'bind_parameter']), 'scopes': rng.sample(['left', 'right', 'a/b', 'zz'], 2), 'drop_scope': rng.random() < 0.3,
             'evaluate': rng.random() < 0.7}
      continue
    nparams = rng.choice([1, 2, 3])
    spec = {'shape': rng.choice(['fn', 'fn', 'init']), 'api': rng.choice(['configurable', 'register', 'external']),
            'pos': ['p%d' % j for j in range(nparams)], 'dflt': [], 'varargs': False, 'kwonly': [], 'varkw': rng.random() < 0.35}
    trees = {'p%d' % j: gen_tree(rng, rng.choice([0, 1, 2, 3])) for j in range(nparams)}
    if spec['varkw']:
      trees['x0'] = gen_tree(rng, rng.choice([0, 1, 2]))   # a parameter only **kwargs can take
    raiser_case = rng.random() < 0.06
    if raiser_case:
      # an evaluated reference that raises an ordinary exception in the middle of a container, between two references that succeed
      trees['p0'] = ['list', [gen_ref(rng)[:3] + [True], ['ref', 'raiser', [rng.choice(REF_SCOPES)] if rng.random() < 0.5 else [], True], gen_tree(rng, 1)]]
    graph = {'prov0': rng.choice(G_PROV0), 'prov1': rng.choice(G_PROV1), 'prov2': rng.choice(G_PROV2)}
    for cn in CLS_PROVS:
      graph[cn] = rng.choice(G_CLS)
    # bindings of the providers that are themselves scoped: which one a provider receives shows under which scope it really ran
    sgraph = {k: v for k, v in SGRAPH.items() if rng.random() < 0.13}
    macros = {'m0': rng.choice(G_M0), 'mm/m1': rng.choice(G_M1), 'k0': rng.choice(G_K0), 'kk/k1': rng.choice(G_K1)}
    calls = []
    bind_scope = rng.choice(['', '', 'a'])
    for ci in range(rng.choice([1, 2, 3, 4, 5]) + (1 if raiser_case else 0)):
      ambient = [rng.choice(['a', 'b', 's1']) for _ in range(rng.choice([0, 0, 1, 2, 3]))]
      over, oval = {}, {}
      prefix = True
      for j in range(nparams):
        r = rng.random()
        if r < 0.2 and prefix:
          over['p%d' % j] = 'pos'
        else:
          prefix = False
          if r < 0.45:
            over['p%d' % j] = 'kw'
      if spec['varkw'] and rng.random() < 0.5:
        over['x0'] = 'kw'
      for prm in over:
        # what the caller passes: a truthy list, None, something falsy, or gin.REQUIRED (= "Gin, supply it")
        oval[prm] = rng.choice(['list', 'list', 'list', 'none', 'none', 'zero', 'empty', 'required', 'required'])
      before = None
      if ci > 0 and rng.random() < 0.3:
        k = rng.random()
        if k < 0.3:
          pn = rng.choice(['prov1', 'prov2'] + CLS_PROVS)
          before = ['rebind-graph', pn, rng.choice([g for g in {'prov1': G_PROV1, 'prov2': G_PROV2}.get(pn, G_CLS) if g is not None]), rng.choice(['parse_config', 'bind_parameter'])]
        elif k < 0.55:
          mn = rng.choice(['m0', 'mm/m1'])
          before = ['rebind-macro', mn, rng.choice(G_M0 if mn == 'm0' else G_M1)]
        elif k < 0.8:
          before = ['finalize']
        else:
          before = ['reparse']
      calls.append({'ambient': ambient, 'over': over, 'oval': oval, 'mutate': rng.random() < 0.8, 'fn_scope': [rng.choice(['q', 'a'])] if rng.random() < 0.5 else [],
                    'interrupted_scoped_call_before': rng.random() < 0.15, 'before': before,
                    'how': rng.choice(['list', 'list', 'list', 'nested-str', 'slash-str', 'inside-other', 'none-then', 'get_configurable']),
                    'opsnap': rng.random() < P_OPSNAP, 'gb': rng.random() < 0.2, 'raise': (raiser_case and ci == 0) or rng.random() < 0.1})
    yield {'spec': spec, 'trees': trees, 'graph': graph, 'sgraph': sgraph, 'macros': macros, 'calls': calls,
           'bind_scope': bind_scope, 'parse_scope': rng.choice([None, None, 'b', 'a/s1', 'zz']),
           'parse_via': rng.choice(['parse_config'] * 6 + ['files_and_bindings', 'files_and_bindings-finalize', 'files_and_bindings-finalize']),
           'hold': gen_hold(rng, len(calls)) if rng.random() < P_HOLD else None}


def gen_hold(rng, ncalls):
  """A consumer that is given generators (results of references to generator functions) and reads them lazily: they stay suspended, partly
  read, while the consumer calls of the case go on; released (exhausted / closed / dropped) before a later call or after the last."""
  refs, items = [], []
  for i in range(rng.choice([1, 2, 2, 3])):
    scopes = [rng.choice(REF_SCOPES + ['a']) for _ in range(rng.choice([1, 1, 2]))] if rng.random() < 0.7 else []
    ref = ['ref', rng.choice(GEN_PROVS), scopes, rng.random() < 0.7]
    refs.append(ref[1:])
    w = rng.choice(['bare', 'bare', 'list', 'tuple', 'dict'])
    items.append({'bare': ref, 'list': ['list', [ref]], 'tuple': ['tuple', [ref]], 'dict': ['dict', [[['lit', 'k%d' % i], ref]]]}[w])
  tags = {}
  for name, scopes, _ in refs:
    if scopes and rng.random() < 0.6:
      pre = scopes[:rng.randint(1, len(scopes))]
      if not any('.' in sc for sc in pre):     # a binding key cannot be written with a dotted scope (only a reference can)
        tags['/'.join(pre + [name])] = 0
  for k in ['a/gen0', 'hq/gen1', 'b/gen0', 'a/gen1']:
    if rng.random() < 0.3:
      tags[k] = 0
  n = {g: rng.choice([2, 3, 4]) for g in GEN_PROVS}
  at = rng.randrange(ncalls)
  return {'refs': refs, 'tree': ['list', items], 'tags': {k: 'tag-' + k for k in tags}, 'n': n, 'take': rng.randint(1, min(n.values()) - 1),
          'at': at, 'release_at': rng.choice([None] + list(range(at + 1, ncalls))), 'release_how': rng.choice(['exhaust', 'close', 'drop']),
          'ambient': [rng.choice(['a', 'b', 's1']) for _ in range(rng.choice([0, 0, 1, 2]))], 'fn_scope': [rng.choice(['hq', 'a'])] if rng.random() < 0.6 else [],
          'reader': rng.choice(['consumer', 'harness']), 'inner': rng.random() < 0.6, 'twice': rng.random() < 0.3}


def _hold_lines(h):
  lines = ['c4lazy.x = %s' % tree_text(h['tree'])]
  lines += ['%s.n = %d' % (g, k) for g, k in sorted(h['n'].items())]
  lines += ['%s.tag = %r' % (k, v) for k, v in sorted(h['tags'].items())]
  return lines


def _hold_items(h, name, scope):
  """Model of what a generator made by gen0/gen1 under `scope` yields: the scoped binding with the longest matching prefix decides the tag."""
  tag = 'dflt-tag'
  for i in range(1, len(scope) + 1):
    tag = h['tags'].get('/'.join(list(scope[:i]) + [name]), tag)
  return [(tag, i) for i in range(h['n'][name])]


def _hold_open(ctx, h, st, held):
  import types
  import gin
  amb, fsc, take = list(h['ambient']), list(h['fn_scope']), h['take']
  for rnd in range(2 if h['twice'] else 1):
    if rnd:
      ctx.bucket('lazy:consumer-called-twice')
    ctx.bucket('lazy:read-by-' + h['reader'])
    _S['lazy'] = {'take': take if h['reader'] == 'consumer' else 0, 'inner': h['inner']}
    mark = probes.RECORDER.mark()
    try:
      with gin.config_scope(list(amb)):
        x, taken, mid, inner = _S['lazy_fn']()
    except Exception as e:  # pylint: disable=broad-except
      ctx.check(False, 'unexpected-exception', 'the lazily reading consumer (bound to %s) raised %r under %r' % (tree_text(h['tree']), e, amb))
      return
    finally:
      _S['lazy'] = None
    got_calls = sorted((_pname(r.pid), r.scope) for r in probes.RECORDER.since(mark) if _pname(r.pid))
    ctx.check(mid == amb, 'scope-changed-by-suspended-generator',
              'a consumer called under %r read %d item(s) of each generator it was given (%s): while they are suspended the active scope is %r'
              % (amb, take if h['reader'] == 'consumer' else 0, tree_text(h['tree']), mid))
    ctx.check(gin.current_scope() == [], 'scope-left-behind-after-consumer-call',
              'after the lazily reading consumer returned (generators still suspended) the active scope is %r' % (gin.current_scope(),))
    exp_calls = []
    want_inner = model_call('prov0', amb, st, exp_calls) if h['inner'] else None
    ctx.check(sorted(exp_calls) == got_calls, 'provider-calls-differ',
              'a configurable called by the consumer under %r while the generators it received are suspended: providers ran as %r, model %r' % (amb, got_calls, sorted(exp_calls)))
    if h['inner']:
      got_inner = shape_of(inner, ctx, [], [])
      ctx.check(got_inner == want_inner, 'delivered-value-differs', 'prov0() called by the consumer under %r gave %r, model %r' % (amb, got_inner, want_inner))
    leaves = list(_leaves(x))
    if not ctx.check(len(leaves) == len(h['refs']), 'delivered-value-differs', '%s delivered %r' % (tree_text(h['tree']), x)):
      return
    for (name, scopes, ev), leaf, first in zip(h['refs'], leaves, taken):
      ctx.bucket('lazy:%s-%s' % ('scoped' if scopes else 'unscoped', 'evaluated' if ev else 'unevaluated'))
      items = _hold_items(h, name, list(scopes) or (amb if ev else fsc))
      ref_text = tree_text(['ref', name, scopes, ev])
      g, first = leaf, list(first or [])
      try:
        if not ev:
          if not ctx.check(callable(leaf) and not isinstance(leaf, types.GeneratorType), 'delivered-value-differs', '%s delivered %r' % (ref_text, leaf)):
            continue
          with gin.config_scope(list(fsc)):
            g = leaf()
        if not ctx.check(isinstance(g, types.GeneratorType), 'delivered-value-differs', '%s delivered %r, not the generator the function returns' % (ref_text, g)):
          continue
        ctx.check(all(g is not o['g'] for o in held), 'evaluated-reference-result-not-fresh', '%s delivered a generator already delivered before' % ref_text)
        while len(first) < take:
          first.append(next(g))
      except Exception as e:  # pylint: disable=broad-except
        ctx.check(False, 'unexpected-exception', 'reading the generator delivered for %s raised %r' % (ref_text, e))
        continue
      ctx.count('lazy_generators_read')
      ctx.check(first == items[:take], 'lazy-generator-items-differ', '%s (consumer under %r, called under %r): first items %r, model %r' % (ref_text, amb, fsc, first, items[:take]))
      ctx.check(gin.current_scope() == [], 'scope-left-behind-by-suspended-generator',
                'the generator delivered for %s is suspended after %d item(s): the active scope is %r, expected none' % (ref_text, take, gin.current_scope()))
      held.append({'g': g, 'rest': items[take:], 'ref': ref_text})


def _hold_release(ctx, held, how):
  import gin
  if not held:
    return
  ctx.bucket('lazy:released-' + how)
  for o in held:
    try:
      if how == 'exhaust':
        rest = list(o['g'])
        ctx.check(rest == o['rest'], 'lazy-generator-items-differ', '%s: the remaining items are %r, model %r' % (o['ref'], rest, o['rest']))
      elif how == 'close':
        o['g'].close()
    except Exception as e:  # pylint: disable=broad-except
      ctx.check(False, 'unexpected-exception', '%s: %s of the delivered generator raised %r' % (o['ref'], how, e))
  o = None
  del held[:]                                   # 'drop': the last references go away
  ctx.check(gin.current_scope() == [], 'scope-left-behind-by-suspended-generator',
            'after the delivered generators were released (%s) the active scope is %r' % (how, gin.current_scope()))


# provider graphs stay acyclic: prov0 < prov1, Prov3..5 < prov2
G_PROV0 = [None, None, ['lit', ['p0-t', [0]]]]
G_PROV1 = [None, ['ref', 'prov0', [], True], ['ref', 'prov0', ['g1'], True]]
G_PROV2 = [None, None, ['ref', 'prov1', [], True], ['ref', 'prov1', ['g2'], True], ['list', [['ref', 'prov0', [], True], ['ref', 'prov1', [], False]]],
           ['ref', 'Prov3', ['g2'], True], ['tuple', [['ref', 'Prov5', [], True], ['ref', 'c4.Prov4', ['s1'], False]]]]
G_CLS = [None, None, None, None, None, ['ref', 'prov0', [], True], ['ref', 'prov0', ['g1'], True], ['lit', ['cls-t', [0]]]]
G_M0 = [['ref', 'prov0', [], True], ['ref', 'prov1', ['ms'], True], ['lit', [1, [2]]]]
G_M1 = [['ref', 'prov2', [], True], ['list', [['ref', 'prov0', [], True]]], ['dict', [[['lit', 'k'], ['list', [['ref', 'prov0', [], True], ['tuple', [['ref', 'prov1', ['s1'], True]]]]]]]]]
# macros used as dict keys: hashable values (a string, a tuple, an instance of a class provider), never equal to each other
G_K0 = [['lit', 'k0-val'], ['lit', 'k0-val'], ['ref', 'Prov3', [], True]]
G_K1 = [['lit', ('k1-val', 1)], ['lit', ('k1-val', 1)], ['ref', 'Prov4', ['s2'], True]]
SGRAPH = {'g1/prov0': ['lit', ['g1-t']], 's1/prov0': ['lit', 's1-t'], 's1/s2/prov0': ['lit', ('s1s2-t', [1])], 'a/prov0': ['lit', 'a-t'],
          'g2/prov1': ['ref', 'prov0', [], True], 's1/Prov3': ['ref', 'prov0', [], True], 's2/Prov4': ['lit', ['s2-t']], 's1/Prov5': ['lit', 's1-5'],
          'q/prov0': ['lit', 'q-t'], 'm0/prov0': ['lit', ['m0-t']]}


# ---- the model: walk a tree, produce the expected provider calls and the delivered shape
def model_eval(t, ambient, case, calls):
  """Returns shape of the delivered value; appends (prov, scope) to calls for every provider run."""
  k = t[0]
  if k == 'lit':
    return lit_shape(t[1])
  if k == 'ref':
    name, scopes, ev = _base(t[1]), t[2], t[3]
    if not ev:
      return ('fn', name, tuple(scopes))
    return model_call(name, scopes or ambient, case, calls)
  if k == 'macro':
    mscope = t[1].split('/')
    return model_eval(case['macros'][t[1]], mscope, case, calls)
  if k in ('list', 'tuple'):
    return (k, tuple(model_eval(x, ambient, case, calls) for x in t[1]))
  return ('dict', tuple((model_eval(a, ambient, case, calls), model_eval(b, ambient, case, calls)) for a, b in t[1]))


def lit_shape(v):
  if type(v) in (list, tuple):
    return (type(v).__name__, tuple(lit_shape(x) for x in v))
  if type(v) is dict:
    return ('dict', tuple((lit_shape(a), lit_shape(b)) for a, b in v.items()))
  return ('lit', canon(v))


def model_call(name, scope, case, calls):
  calls.append((name, tuple(scope)))
  g = case['graph'].get(name)
  sg = case.get('sgraph')
  if sg:
    # bindings of the provider under the scope it runs in: every prefix of that scope contributes, the longest wins
    for i in range(1, len(scope) + 1):
      g2 = sg.get('/'.join(scope[:i]) + '/' + name)
      if g2 is not None:
        g = g2
  tshape = lit_shape('dflt-t') if g is None else model_eval(g, list(scope), case, calls)
  return ('prov', name, tshape)


def _rec_of(v):
  """The record of the provider run that produced `v` (a tagged list of a function provider, or an instance of a class provider)."""
  if isinstance(v, list) and len(v) == 3 and v[0] == 'ret' and _pname(v[1]):
    return _pname(v[1]), _match(v, None)
  rec = getattr(v, 'rec', None) if not isinstance(v, type) else None
  if isinstance(rec, probes.Rec) and rec.pid in _S['xby_pid']:
    return _S['xby_pid'][rec.pid], rec
  return None, None


def shape_of(v, ctx, fn_scope, calls_seen):
  """Shape of a delivered value; delivered configurables are *called* (under fn_scope) to see what they are."""
  import gin
  name, rec = _rec_of(v)
  if name:
    t = rec.received['t'] if rec else None
    return ('prov', name, shape_of(t, ctx, fn_scope, calls_seen))
  if callable(v) and not isinstance(v, type) or (isinstance(v, type)):
    mark = probes.RECORDER.mark()
    try:
      with gin.config_scope(list(fn_scope)):
        res = v()
    except Exception as e:  # pylint: disable=broad-except
      return ('fn-raised', repr(e))
    recs = probes.RECORDER.since(mark)
    ctx.bucket('delivered-fn-called')
    if not recs:
      return ('fn-unknown',)
    first = recs[-1]  # the delivered configurable's own body runs last (its arguments are evaluated first)
    calls_seen.append([(_pname(r.pid) or r.pid, r.scope) for r in recs])
    cls = getattr(_prov(_pname(first.pid) or ''), 'original', None)
    if isinstance(cls, type):
      # a reference to a class, scoped or not, delivers something that constructs that class
      ctx.check(isinstance(res, cls) and getattr(res, 'rec', None) is first, 'class-reference-does-not-construct-the-class',
                'calling the delivered reference to class %s returned %r' % (_pname(first.pid), res))
    return ('fn-called', _pname(first.pid) or first.pid, first.scope)
  if type(v) in (list, tuple):
    return (type(v).__name__, tuple(shape_of(x, ctx, fn_scope, calls_seen) for x in v))
  if type(v) is dict:
    return ('dict', tuple((shape_of(a, ctx, fn_scope, calls_seen), shape_of(b, ctx, fn_scope, calls_seen)) for a, b in v.items()))
  return ('lit', canon(v))


def check_identity(ctx, shape, v):
  """'@name' without a scope delivers the configurable itself: the very object registration produced (gin.get_configurable(name))."""
  import gin
  if shape[0] == 'fn':
    if not shape[2]:
      ctx.count('identity_checks')
      ctx.bucket('identity:unscoped-unevaluated-is-the-configurable')
      conf = _prov(shape[1]).conf
      ctx.check(v is conf, 'unevaluated-reference-not-the-configurable', '@%s delivered %r, the configurable is %r' % (shape[1], v, conf))
      ctx.check(v is gin.get_configurable('c4.' + shape[1]), 'unevaluated-reference-not-the-configurable',
                "@%s delivered %r, gin.get_configurable('c4.%s') is another object" % (shape[1], v, shape[1]))
  elif shape[0] in ('list', 'tuple') and type(v) in (list, tuple) and len(v) == len(shape[1]):
    for sh, x in zip(shape[1], v):
      check_identity(ctx, sh, x)
  elif shape[0] == 'dict' and type(v) is dict and len(v) == len(shape[1]):
    for (ska, skb), (a, b) in zip(shape[1], v.items()):
      check_identity(ctx, ska, a)
      check_identity(ctx, skb, b)
  elif shape[0] == 'prov':
    _, rec = _rec_of(v)
    if rec is not None:
      check_identity(ctx, shape[2], rec.received.get('t'))


def model_shape_called(shape, fn_scope, case, fcalls):
  """Transforms ('fn', name, scopes) leaves of the model shape into what calling them under fn_scope must show."""
  if shape[0] == 'fn':
    calls = []
    model_call(shape[1], list(shape[2]) or list(fn_scope), case, calls)
    fcalls.append(calls)
    return ('fn-called', shape[1], tuple(shape[2]) or tuple(fn_scope))
  if shape[0] in ('list', 'tuple'):
    return (shape[0], tuple(model_shape_called(x, fn_scope, case, fcalls) for x in shape[1]))
  if shape[0] == 'dict':
    return ('dict', tuple((model_shape_called(a, fn_scope, case, fcalls), model_shape_called(b, fn_scope, case, fcalls)) for a, b in shape[1]))
  if shape[0] == 'prov':
    return ('prov', shape[1], model_shape_called(shape[2], fn_scope, case, fcalls))
  return shape


def mutate(v, depth=0):
  n = 0
  if isinstance(v, list):
    for x in list(v):
      n += mutate(x, depth + 1)
    v.append('MUT')
    if len(v) > 1:
      v.pop(0)
    v.insert(0, ['MUT2'])
    n += 1
  elif isinstance(v, dict):
    for x in list(v.values()):
      n += mutate(x, depth + 1)
    v['MUT'] = 1
    for k in list(v):
      if k != 'MUT':
        del v[k]
        break
    n += 1
  elif isinstance(v, tuple):
    for x in v:
      n += mutate(x, depth + 1)
  return n


def _nest(nest, ref_text):
  return {'bare': ref_text, 'list': '[1, %s]' % ref_text, 'dict': "{'k': %s}" % ref_text, 'tuple-in-list': '[(%s, 2)]' % ref_text}[nest]


def _unnest(nest, v):
  return {'bare': lambda: v, 'list': lambda: v[1], 'dict': lambda: v['k'], 'tuple-in-list': lambda: v[0][0]}[nest]()


def run_special(ctx, case):
  import gin
  from gin import config as gc
  gin.clear_config()
  ctx.bucket('special:' + case['which'])
  s1, s2 = case['scopes']
  ev = '()' if case['evaluate'] else ''

  def deliver():
    got = _S['cons2']()
    v = _unnest(case['nest'], got[0])
    return v() if not case['evaluate'] else v       # an unevaluated reference delivers the (scoped) configurable: call it here

  if case['which'] == 'target-registered-after-parse':
    # the config is parsed (skip_unknown) BEFORE the module that registers the referenced configurable is imported; the configurable is
    # registered afterwards. Using the value may be refused (the reference was unknown when it was written) - but if anything is
    # delivered, it is the target run under exactly the written scope / the scope of the consuming call, anew each time
    _S['late_n'] = _S.get('late_n', 0) + 1
    name = 'c4late%d_w%d' % (_S['late_n'], ctx.widx)
    scoped = not case['drop_scope']
    ref = '@%s%s%s' % (s1 + '/' if scoped else '', name, ev)
    gin.parse_config('c4cons2.x = %s\n' % _nest(case['nest'], ref), skip_unknown=True)
    runs = []

    def late():
      runs.append(gin.current_scope())
      return ('L', gin.current_scope())
    gin.external_configurable(late, name, module='c4')
    ctx.fp('special', case['which'], case['nest'], case['drop_scope'], case['evaluate'])
    want = ('L', s1.split('/') if scoped else s2.split('/'))
    for k in range(2):
      try:
        with gin.config_scope(s2):
          got = deliver()
      except ValueError:
        ctx.bucket('late-reference:refused')
        ctx.count('oracle_evals')
        continue
      ctx.bucket('late-reference:delivered')
      ctx.check(got == want and len(runs) == k + 1, 'reference-ran-under-other-scope',
                'x = %s parsed before %s was registered; consumer call %d under %r received %r (target runs so far under %r), expected %r' % (
                    ref, name, k, s2, got, runs, want))
    return
  if case['which'] == 'rebind-changes-only-the-scope':
    # two references that differ only in their scope are different values: re-binding must take effect
    gin.parse_config('c4cons2.x = %s\n' % _nest(case['nest'], '@%s/c4tgt%s' % (s1, ev)))
    first = deliver()
    ctx.check(first == ('A', s1.split('/')), 'reference-ran-under-other-scope', 'x = %s delivered %r' % (_nest(case['nest'], '@%s/c4tgt%s' % (s1, ev)), first))
    new_ref = '@c4tgt%s' % ev if case['drop_scope'] else '@%s/c4tgt%s' % (s2, ev)
    want_scope = [] if case['drop_scope'] else s2.split('/')
    if case['via'] == 'parse_config':
      gin.parse_config('c4cons2.x = %s\n' % _nest(case['nest'], new_ref))
    else:
      gin.bind_parameter('c4cons2.x', gc.parse_value(_nest(case['nest'], new_ref)))
    second = deliver()
    ctx.check(second == ('A', want_scope), 'rebinding-to-reference-with-other-scope-ignored',
              'x re-bound (%s) from %s to %s: the consumer received %r, expected the target run under %r' % (case['via'], '@%s/c4tgt%s' % (s1, ev), new_ref, second, want_scope))
    q = repr(gin.query_parameter('c4cons2.x'))
    ctx.check(new_ref in q, 'rebinding-to-reference-with-other-scope-ignored', 'query_parameter after the re-binding shows %s, expected %s inside' % (q, new_ref))
    ctx.fp('special', case['which'], case['nest'], case['via'], case['drop_scope'], case['evaluate'])
    return
  # target-reregistered: references made after a configurable was registered again deliver the new registration, scoped or not
  try:
    text = 'c4cons2.x = %s\nc4cons2.y = %s\n' % (_nest(case['nest'], '@%s/c4tgt%s' % (s1, ev)), _nest(case['nest'], '@c4tgt%s' % ev))
    gin.parse_config(text)
    first = deliver()
    ctx.check(first == ('A', s1.split('/')), 'reference-ran-under-other-scope', 'before re-registration: %r' % (first,))
    with gc.interactive_mode():
      @gin.configurable('c4tgt', module='c4')
      def tgt_b():                      # registered again under the same name: a new implementation
        return ('B', gin.current_scope())
    if case['via'] == 'parse_config':
      gin.parse_config(text)
    else:
      gin.bind_parameter('c4cons2.x', gc.parse_value(_nest(case['nest'], '@%s/c4tgt%s' % (s1, ev))))
      gin.bind_parameter('c4cons2.y', gc.parse_value(_nest(case['nest'], '@c4tgt%s' % ev)))
    got = _S['cons2']()
    vx, vy = _unnest(case['nest'], got[0]), _unnest(case['nest'], got[1])
    if not case['evaluate']:
      vx, vy = vx(), vy()
    ctx.check(vy == ('B', []), 'reference-delivers-stale-registration', 'unscoped reference made after the re-registration delivered %r' % (vy,))
    ctx.check(vx == ('B', s1.split('/')), 'reference-delivers-stale-registration',
              'scoped reference @%s/c4tgt%s made after the re-registration delivered %r, the unscoped one %r' % (s1, ev, vx, vy))
    sg = gin.get_configurable('%s/c4tgt' % s1)()
    ctx.check(sg == ('B', s1.split('/')), 'reference-delivers-stale-registration', "get_configurable('%s/c4tgt')() after the re-registration returned %r" % (s1, sg))
    ctx.fp('special', case['which'], case['nest'], case['via'], case['evaluate'])
  finally:
    with gc.interactive_mode():
      _register_tgt_a()


def _register_tgt_a():
  import gin

  @gin.configurable('c4tgt', module='c4')
  def tgt_a():
    return ('A', gin.current_scope())


def _config_text(st, p, pre, trees):
  lines = []
  for name, g in st['graph'].items():
    if g is not None:
      lines.append('%s.t = %s' % (name, tree_text(g)))
  for key, g in st['sgraph'].items():
    lines.append('%s.t = %s' % (key, tree_text(g)))
  for m, t in st['macros'].items():
    lines.append('%s = %s' % (m, tree_text(t)))
  for prm, t in trees.items():
    lines.append('%s%s.%s = %s' % (pre, p.name, prm, tree_text(t)))
  if st.get('hold'):
    lines += _hold_lines(st['hold'])
  lines.append('c1pre/c1cons.x = @leaked2/c1interrupt()')
  return '\n'.join(lines) + '\n'


def _apply_between(ctx, op, st, text):
  """Something that happens between two consumer calls; `st` (the model's view of the provider graph and macros) follows."""
  import gin
  from gin import config as gc
  ctx.bucket('between:' + op[0])
  if op[0] == 'finalize':
    if not gin.config_is_locked():
      gin.finalize()
    return
  with gin.unlock_config():
    if op[0] == 'rebind-graph':
      st['graph'][op[1]] = op[2]
      if op[3] == 'bind_parameter':
        gin.bind_parameter('%s.t' % op[1], gc.parse_value(tree_text(op[2])))
      else:
        gin.parse_config('%s.t = %s\n' % (op[1], tree_text(op[2])))
    elif op[0] == 'rebind-macro':
      st['macros'][op[1]] = op[2]
      gin.parse_config('%s = %s\n' % (op[1], tree_text(op[2])))
    elif op[0] == 'reparse':
      gin.parse_config(text())      # the whole configuration as it stands, a second time: nothing changes


def _caller_value(ov, prm):
  import gin
  return {'list': lambda: ['caller', prm], 'none': lambda: None, 'zero': lambda: 0, 'empty': lambda: [], 'required': lambda: gin.REQUIRED}[ov]()


def _call_consumer(p, P, K, ambient, how):
  """The ways the scope active at the consuming call comes about."""
  import contextlib
  import gin
  with contextlib.ExitStack() as es:
    if how == 'nested-str':           # config_scope('a') inside config_scope('b'): names accumulate
      for comp in ambient:
        es.enter_context(gin.config_scope(comp))
    elif how == 'slash-str':
      es.enter_context(gin.config_scope('/'.join(ambient)))   # '' clears
    elif how == 'inside-other':       # a list *replaces* whatever is active
      es.enter_context(gin.config_scope('zz/a'))
      es.enter_context(gin.config_scope(list(ambient)))
    elif how == 'none-then':          # None clears whatever is active
      es.enter_context(gin.config_scope('zz/s1'))
      es.enter_context(gin.config_scope(None))
      for comp in ambient:
        es.enter_context(gin.config_scope(comp))
    elif how == 'get_configurable':   # the scope written in front of the selector is the scope of the call
      if ambient:
        es.enter_context(gin.config_scope('zz'))
      fn = gin.get_configurable('/'.join(list(ambient) + [p.selector]))
      return fn(*P, **K)
    else:
      es.enter_context(gin.config_scope(list(ambient)))
    return probes.call_probe(p, P, K)


def _all_nodes(trees):
  stack = list(trees.values())
  while stack:
    t = stack.pop()
    yield t
    if t[0] in ('list', 'tuple'):
      stack.extend(t[1])
    elif t[0] == 'dict':
      for a, b in t[1]:
        stack.extend((a, b))


def _is_ev(t):
  f = tree_feats(t)
  return 'ref:evaluated' in f or 'ref:scoped-evaluated' in f or 'ref:macro' in f


def run_case(ctx, case):
  import gin
  if case.get('kind') == 'special':
    return run_special(ctx, case)
  gin.clear_config()
  held = []
  try:
    _run_case(ctx, case, held)
  finally:
    _S['raise_now'] = False
    for o in held:                    # generators still suspended (the case ended early): do not carry them into the next case
      try:
        o['g'].close()
      except Exception:  # pylint: disable=broad-except
        pass
    del held[:]
    if gin.config_is_locked():        # a 'finalize' between calls: leave the configuration unlocked for whoever runs next
      gin.clear_config()


def _quiet(ctx, mark, what):
  """An evaluated reference is called when (each time) its consuming configurable is called - and by a query that asks for resolved values. Parsing,
  binding, finalizing, locking, unresolved queries and config strings are none of these: no provider may have run since `mark`."""
  ran = [(_pname(r.pid), r.scope) for r in probes.RECORDER.since(mark) if _pname(r.pid)]
  ctx.count('quiet_periods_checked')
  ctx.check(not ran, 'provider-ran-outside-a-consumer-call', '%s ran referenced configurables although no consumer was called: %r' % (what, ran))


def _parse(case, text):
  import gin
  via = case.get('parse_via') or 'parse_config'
  if via == 'parse_config':
    gin.parse_config(text)
  else:
    # the usual entry point of a program: by default it also finalizes (runs the finalize hooks and locks the configuration)
    gin.parse_config_files_and_bindings(None, text, finalize_config=via.endswith('-finalize'))


def _run_case(ctx, case, held):
  import gin
  spec = case['spec']
  p = probes.build(spec)
  # the model's view of the provider graph / macros; re-bindings between calls update it
  st = {'graph': dict(case['graph']), 'sgraph': dict(case.get('sgraph') or {}), 'macros': dict(case['macros']), 'hold': case.get('hold')}
  hold = st['hold']
  used_macros = {x[1] for x in _all_nodes(case['trees']) if x[0] == 'macro'}
  for m in KEY_MACROS:
    if m not in used_macros:
      del st['macros'][m]           # (the model never looks an unused macro up; the config text stays short)
  pre = case['bind_scope'] + '/' if case['bind_scope'] else ''
  text = _config_text(st, p, pre, case['trees'])
  qmark = probes.RECORDER.mark()
  if case.get('parse_scope'):
    # the scope that happens to be open while the config is *parsed* is irrelevant: unscoped references run under the scope of the consuming call
    ctx.bucket('parsed-inside-a-scope')
    with gin.config_scope(case['parse_scope']):
      _parse(case, text)
  else:
    _parse(case, text)
  ctx.bucket('quiet:parse')
  if (case.get('parse_via') or '').endswith('-finalize'):
    ctx.bucket('parse-via:files_and_bindings-finalize')
  feats = set()
  for t in case['trees'].values():
    feats |= tree_feats(t)
    feats |= key_feats(t)
  for m in used_macros:
    feats |= key_feats(case['macros'][m])
  # a parameter bound to a macro as a whole, the macro's value holding evaluated references (any depth)
  top_macro = any(t[0] == 'macro' and has_evaluated(t, case['macros']) for t in case['trees'].values())
  if top_macro:
    feats.add('ref:top-level-macro-holding-evaluated-reference')
    if (case.get('parse_via') or '').endswith('-finalize'):
      ctx.bucket('quiet:finalize-with-evaluated-reference-behind-top-level-macro')
  _quiet(ctx, qmark, 'parsing the configuration (%s)' % (case.get('parse_via') or 'parse_config'))
  for f in feats:
    ctx.bucket(f)
  if any(g is not None for g in case['graph'].values()):
    ctx.bucket('graph:nested-provider')
  if case['graph']['prov2'] and case['graph']['prov2'][0] == 'ref' and case['graph']['prov2'][2] and case['graph']['prov1'] and not case['graph']['prov1'][2]:
    ctx.bucket('graph:scoped-outer-unscoped-inner')
  if len(case['calls']) >= 3:
    ctx.bucket('calls:3+')
  keys = ['%s%s.%s' % (pre, p.name, prm) for prm in case['trees']]
  base_snap = None
  seen_ids = set()
  keep_alive = []
  ctx.fp(tuple(sorted(feats)), tuple(len(c['ambient']) for c in case['calls']), tuple(tuple(sorted(c['over'].items())) for c in case['calls']),
         spec['shape'], spec['api'], bool(case['bind_scope']), tuple(sorted(st['sgraph'])),
         tuple((c.get('how'), (c.get('before') or [None])[0], tuple(sorted((c.get('oval') or {}).items()))) for c in case['calls']))
  ctx.sample({'config': text, 'calls': case['calls']}, cap=3)

  def take_snap(full=True):
    # config_str() is the expensive part: it is taken whenever something was mutated since the last snapshot (and first / last)
    return (gin.config_str() if full else None, [canon(gin.query_parameter(k)) for k in keys],
            canon(gin.get_bindings(p.selector, resolve_references=False)), snap.store_nonempty())

  def same_snap(a, b):
    return a[1:] == b[1:] and (a[0] is None or b[0] is None or a[0] == b[0])

  raised_before = False
  dirty = True
  for ci, call in enumerate(case['calls']):
    ambient = call['ambient']
    if call.get('before') and ci > 0:
      qmark = probes.RECORDER.mark()
      finalizes = call['before'][0] == 'finalize' and not gin.config_is_locked()
      try:
        _apply_between(ctx, call['before'], st, lambda: _config_text(st, p, pre, case['trees']))
      except BaseException as e:  # pylint: disable=broad-except
        if isinstance(e, (KeyboardInterrupt, SystemExit, Exception)):
          raise
        # e.g. a provider run (and interrupted) by finalize(): surface it instead of losing the worker
        raise RuntimeError('%s between two consumer calls raised %r' % (call['before'][0], e)) from e
      base_snap = None                # the configuration was changed on purpose: a new baseline
      if finalizes and any(t[0] == 'macro' and has_evaluated(t, st['macros']) for t in case['trees'].values()):
        ctx.bucket('quiet:finalize-with-evaluated-reference-behind-top-level-macro')
      _quiet(ctx, qmark, '%s between two consumer calls' % (call['before'][0],))
    if hold and hold['release_at'] == ci:
      _hold_release(ctx, held, hold['release_how'])
    if hold and hold['at'] == ci:
      _hold_open(ctx, hold, st, held)
    if held:
      ctx.bucket('lazy:generator-held-across-consumer-calls')
    if call.get('interrupted_scoped_call_before'):
      # a scoped reference / scoped configurable left by a BaseException must not leave its scope behind
      from vf.checks import c01
      ctx.bucket('history:scoped-reference-left-by-BaseException')
      c01.prelude(gin, bind=False)
    ctx.bucket('ambient:depth0' if not ambient else ('ambient:depth2+' if len(ambient) >= 2 else 'ambient:depth1'))
    qmark = probes.RECORDER.mark()
    snap_before = take_snap(full=dirty or base_snap is None)
    dirty = False
    ctx.bucket('quiet:snapshot')
    _quiet(ctx, qmark, 'config_str / query_parameter / get_bindings(resolve_references=False)')
    if base_snap is None:
      base_snap = snap_before
    else:
      ctx.count('mutation_snapshots_compared')
      ctx.check(same_snap(snap_before, base_snap), 'config-changed-by-consumer-mutation',
                'after the consumer mutated what it received, config_str/query/get_bindings/store differ: %r' % (snap.diff(base_snap[3], snap_before[3]),))
    applies = (not case['bind_scope']) or (ambient[:1] == [case['bind_scope']])
    P, K = [], {}
    supplied = {}
    exp_calls, exp_shapes = [], {}
    required_unbound = False
    params = spec['pos'] + (['x0'] if spec['varkw'] else [])
    for prm in params:
      o = call['over'].get(prm)
      ov = (call.get('oval') or {}).get(prm, 'list') if o else None
      is_ev = _is_ev(case['trees'][prm])
      if o:
        val = _caller_value(ov, prm)
        if o == 'pos':
          P.append(val)
          ctx.bucket('override:positional')
        else:
          K[prm] = val
          ctx.bucket('override:keyword')
          if prm == 'x0':
            ctx.bucket('override:keyword-on-varkw-parameter')
      if o and ov == 'required':
        # gin.REQUIRED from the caller means "Gin supplies this parameter": the reference IS evaluated, once
        if applies:
          exp_shapes[prm] = model_eval(case['trees'][prm], ambient, st, exp_calls)
          if is_ev:
            ctx.bucket('override:REQUIRED-%s-on-evaluated-ref' % ('positional' if o == 'pos' else 'keyword'))
        else:
          required_unbound = True     # nothing bound under this scope: an error of some kind, not this property's business
      elif o:
        supplied[prm] = val
        if is_ev and applies:
          ctx.bucket('override:%s-on-evaluated-ref' % ('positional' if o == 'pos' else 'keyword'))
          if ov == 'none':
            ctx.bucket('override:None-on-evaluated-ref')
          elif ov in ('zero', 'empty'):
            ctx.bucket('override:falsy-on-evaluated-ref')
      else:
        ctx.bucket('override:none')
        if applies:
          exp_shapes[prm] = model_eval(case['trees'][prm], ambient, st, exp_calls)
    how = call.get('how') or 'list'
    if how != 'list':
      ctx.bucket('ambient-how:' + how)
    will_raise = bool(call.get('raise')) and any(c[0] == 'raiser' for c in exp_calls)
    mark = probes.RECORDER.mark()
    exc = None
    _S['raise_now'] = bool(call.get('raise'))
    try:
      _call_consumer(p, P, K, ambient, how)
    except Exception as e:  # pylint: disable=broad-except
      exc = e
    finally:
      _S['raise_now'] = False
    recs = probes.RECORDER.since(mark)
    ctx.count('consumer_calls')
    ctx.check(gin.current_scope() == [], 'scope-left-behind-after-consumer-call', 'after the consumer call (%r) the active scope is %r' % (exc, gin.current_scope()))
    if required_unbound:
      continue
    prov_recs = [r for r in recs if _pname(r.pid)]
    cons = [r for r in recs if r.pid == p.pid]
    got_calls = sorted((_pname(r.pid), r.scope) for r in prov_recs)
    if will_raise:
      # an evaluated reference raised an ordinary exception somewhere inside the value: there is no result to deliver, so the consumer cannot have
      # run; references evaluated before it ran as the model says (a sub-multiset); the calls that follow behave as if nothing had happened
      if 'ref:evaluated-raiser' in tree_feats(case['trees'].get('p0', ['lit', 0])) and case['trees']['p0'][0] == 'list':
        ctx.bucket('history:evaluated-reference-raised-mid-container')
      raised_before = True
      ctx.check(exc is not None and not cons, 'consumer-ran-although-evaluated-reference-raised',
                'call %d: a provider raised while its reference was evaluated, yet the consumer ran (%d times, exception %r)' % (ci, len(cons), exc))
      rest = list(exp_calls)
      extra = []
      for c in got_calls:
        if c in rest:
          rest.remove(c)
        else:
          extra.append(c)
      ctx.check(not extra and any(c[0] == 'raiser' for c in got_calls), 'provider-calls-differ',
                'call %d under %r (a reference raises): providers ran as %r, not a part of the model\'s %r' % (ci, ambient, got_calls, sorted(exp_calls)))
      continue
    if raised_before:
      ctx.bucket('history:call-after-raising-reference')
    missing = [prm for prm in spec['pos'] if prm not in exp_shapes and call['over'].get(prm) is None]
    if 'x0' in params and 'x0' not in exp_shapes and call['over'].get('x0') is None:
      pass  # an unbound, unsupplied **kwargs name is simply absent
    if missing:
      ctx.check(isinstance(exc, TypeError), 'expected-TypeError', 'parameters %r unbound under %r but call gave %r' % (missing, ambient, exc))
      # providers of the parameters that *are* bound may legitimately have run before the TypeError
      continue
    if not ctx.check(exc is None, 'unexpected-exception', 'consumer call raised %r' % (exc,)):
      continue
    ctx.count('provider_call_multisets_compared')
    key = 'provider-calls-differ'
    if sorted(exp_calls) != got_calls:
      over_kw = [prm for prm, o in call['over'].items() if o == 'kw']
      if over_kw and len(got_calls) > len(exp_calls) and all(c in got_calls for c in exp_calls):
        key = 'reference-evaluated-for-caller-keyword-argument'
    ctx.check(sorted(exp_calls) == got_calls, key,
              'call %d under %r via %s (overrides %r %r): providers ran as %r, model %r' % (ci, ambient, how, call['over'], call.get('oval'), got_calls, sorted(exp_calls)))
    if any(('/'.join(c[1][:i]) + '/' + c[0]) in st['sgraph'] for c in exp_calls for i in range(1, len(c[1]) + 1)):
      ctx.bucket('graph:scoped-provider-binding-used')
    if not ctx.check(len(cons) == 1, 'consumer-run-count', 'consumer ran %d times' % len(cons)):
      continue
    received = dict(cons[0].received)
    if spec['varkw']:
      received.update(received.get('**') or {})

    def index(v):
      name, rec = _rec_of(v)
      if name:
        keep_alive.append(v)
        ctx.check(id(v) not in seen_ids, 'evaluated-reference-result-not-fresh', 'an evaluated reference delivered an object seen in an earlier call')
        seen_ids.add(id(v))
        if rec is not None:
          index(rec.received.get('t'))
      elif type(v) in (list, tuple):
        for x in v:
          index(x)
      elif type(v) is dict:
        for a, b in v.items():
          index(a)
          index(b)
    present = [prm for prm in params if prm in received]
    for prm in present:
      if prm in exp_shapes:
        index(received[prm])
    for prm in present:
      if prm in exp_shapes:
        fcalls_m, fcalls_g = [], []
        want = model_shape_called(exp_shapes[prm], call['fn_scope'], st, fcalls_m)
        got = shape_of(received[prm], ctx, call['fn_scope'], fcalls_g)
        ctx.check(got == want, 'delivered-value-differs', 'call %d under %r: %s delivered %r, model %r' % (ci, ambient, prm, got, want))
        ctx.check(sorted(map(sorted, fcalls_m)) == sorted(map(sorted, fcalls_g)), 'delivered-configurable-runs-differ',
                  'calling delivered configurables under %r ran %r, model %r' % (call['fn_scope'], fcalls_g, fcalls_m))
        if got == want:
          check_identity(ctx, exp_shapes[prm], received[prm])
      else:
        ctx.check(prm in supplied and received[prm] is supplied[prm] and received[prm] == _caller_value(call.get('oval', {}).get(prm, 'list'), prm),
                  'caller-value-replaced', 'caller value %r for %s replaced by %r' % (supplied.get(prm), prm, received[prm]))
    if call['mutate']:
      qmark = probes.RECORDER.mark()
      op0 = gin.operative_config_str() if call.get('opsnap') else None
      n = sum(mutate(received[prm]) for prm in present)
      if n:
        ctx.bucket('mutation:applied')
        dirty = True
        if op0 is not None:
          # "config strings" are both config_str() (compared before the next call) and operative_config_str()
          ctx.bucket('snapshot:operative-config-around-mutation')
          ctx.count('operative_snapshots_compared')
          op1 = gin.operative_config_str()
          ctx.check(op0 == op1, 'operative-config-changed-by-consumer-mutation',
                    'operative_config_str() before / after the consumer mutated what it received:\n%s\n---\n%s' % (op0, op1))
          _quiet(ctx, qmark, 'operative_config_str()')
    if call.get('gb'):
      # a query that resolves references: under the caller's scope it sees what the consumer would be given there
      gb_calls, gb_shapes = [], {}
      if applies:
        for prm, t in case['trees'].items():
          gb_shapes[prm] = model_eval(t, ambient, st, gb_calls)
      mark = probes.RECORDER.mark()
      gb = {}
      try:
        with gin.config_scope(list(ambient)):
          gb = gin.get_bindings(p.selector)
      except Exception as e:  # pylint: disable=broad-except
        ctx.check(False, 'get-bindings-resolved-differs', 'get_bindings(%r) under %r raised %r although the consumer call just succeeded there' % (p.selector, ambient, e))
        continue
      grecs = sorted((_pname(r.pid), r.scope) for r in probes.RECORDER.since(mark) if _pname(r.pid))
      ctx.bucket('query:get_bindings-resolved')
      ctx.count('get_bindings_resolved_compared')
      ctx.check(sorted(gb) == sorted(gb_shapes) and grecs == sorted(gb_calls), 'get-bindings-resolved-differs',
                'get_bindings(%r) under %r: parameters %r, providers ran as %r; model %r, %r' % (p.selector, ambient, sorted(gb), grecs, sorted(gb_shapes), sorted(gb_calls)))
      for prm in gb_shapes:
        if prm in gb:
          fm, fg = [], []
          want = model_shape_called(gb_shapes[prm], call['fn_scope'], st, fm)
          got = shape_of(gb[prm], ctx, call['fn_scope'], fg)
          ctx.check(got == want, 'get-bindings-resolved-differs', 'get_bindings(%r) under %r: %s is %r, model %r' % (p.selector, ambient, prm, got, want))
  if hold:
    if held and hold['release_at'] is None:
      ctx.bucket('lazy:held-until-the-end')
    _hold_release(ctx, held, hold['release_how'])
  qmark = probes.RECORDER.mark()
  snap_after = take_snap()
  _quiet(ctx, qmark, 'config_str / query_parameter / get_bindings(resolve_references=False)')
  ctx.count('mutation_snapshots_compared')
  ctx.check(same_snap(snap_after, base_snap), 'config-changed-by-consumer-mutation',
            'after the last call config_str/query/get_bindings/store differ from before the first: %r' % (snap.diff(base_snap[3], snap_after[3]),))


def _match(v, recs):
  # provider probes number their results from a per-probe counter starting at 0 in call order
  n = v[2]
  log = probes.RECORDER.log
  idx = _S.setdefault('pid_index', {})
  upto = _S.get('pid_index_upto', 0)
  if upto > len(log) or _S.get('pid_index_log') is not log or (upto and log[upto - 1] is not _S.get('pid_index_last')):   # the log was cleared: start over
    idx.clear()
    upto = 0
    _S['pid_index_log'] = log
  for r in log[upto:]:
    idx.setdefault(r.pid, []).append(r)
  _S['pid_index_upto'] = len(log)
  _S['pid_index_last'] = log[-1] if log else None
  allrecs = idx.get(v[1], ())
  return allrecs[n] if n < len(allrecs) else None


LEVEL_TEXT = ('Runtime monitor with a reference model of reference evaluation: for every consumer call the exact multiset of (provider, observed '
              'scope) runs, the delivered structure (delivered configurables are called to see what and where they run), freshness of evaluated '
              'results and non-replacement of caller values are compared with a model walk of the bound value trees; config_str, query_parameter, '
              'get_bindings and the store are snapshotted around consumer mutations; operative_config_str() is compared immediately before / after the mutation; '
              'get_bindings(resolve_references=True) is compared with the same model; unscoped unevaluated references are compared by identity with the registered configurable; '
              'provider runs outside consumer calls (parse, finalize, re-binding, unresolved queries, config strings) are violations; generators delivered by references stay '
              'suspended across calls while the active scope and all later deliveries are compared with the model.')
LEVEL_NOTE = 'Trusted: the model walk (~40 lines). get_bindings(resolve_references=False)/query_parameter returning stored objects is by design (DESIGN X).'
TECHNIQUE = 'runtime reference-model monitor with call-counting provider probes over generated reference trees, scopes and mutation histories'
DESIGN_REF = 'DESIGN.md section 4, C04'
