"""Probe configurables: real functions/classes/methods generated from a signature spec.

The source is exec'd so inspect sees a genuine signature.  Every body records what it
received (by identity) and the active scope *before* doing anything else.  A `twin`
with the same parameter list, never shown to gin, is CPython's own argument binder:
twin(*P, **K) returns what a call with those arguments must deliver (or raises TypeError).
"""
import itertools
import threading

_counter = itertools.count(1)
_lock = threading.Lock()


class Rec:
  __slots__ = ('pid', 'received', 'scope', 'thread', 'seq')

  def __init__(self, pid, received, scope, thread, seq):
    self.pid, self.received, self.scope, self.thread, self.seq = pid, received, scope, thread, seq

  def __repr__(self):
    return 'Rec(%s, %r, scope=%s)' % (self.pid, self.received, '/'.join(self.scope))


class Recorder:
  """Append-only log shared by all probes of a worker; appends are atomic under its lock."""

  def __init__(self):
    self.log = []
    self.seq = itertools.count()
    self.lock = threading.Lock()

  def rec(self, pid, received):
    import gin
    r = Rec(pid, received, tuple(gin.current_scope()), threading.current_thread().name, None)
    with self.lock:
      r.seq = next(self.seq)
      self.log.append(r)
    return r

  def mark(self):
    return len(self.log)

  def since(self, mark, pid=None):
    return [r for r in self.log[mark:] if pid is None or r.pid == pid]

  def clear(self):
    del self.log[:]


RECORDER = Recorder()


def params_source(spec, defaults_expr='VF_D'):
  parts = list(spec.get('pos', []))
  parts += ['%s=%s[%r]' % (n, defaults_expr, n) for n, _ in spec.get('dflt', [])]
  if spec.get('varargs'):
    parts.append('*args')
  elif spec.get('kwonly'):
    parts.append('*')
  for n, has, _ in spec.get('kwonly', []):
    parts.append('%s=%s[%r]' % (n, defaults_expr, n) if has else n)
  if spec.get('varkw'):
    parts.append('**kwargs')
  return ', '.join(parts)


def recv_source(spec):
  names = list(spec.get('pos', [])) + [n for n, _ in spec.get('dflt', [])] + [n for n, _, _ in spec.get('kwonly', [])]
  items = ['%r: %s' % (n, n) for n in names]
  if spec.get('varargs'):
    items.append("'*': args")
  if spec.get('varkw'):
    items.append("'**': kwargs")
  return '{' + ', '.join(items) + '}'


def all_named(spec):
  return list(spec.get('pos', [])) + [n for n, _ in spec.get('dflt', [])] + [n for n, _, _ in spec.get('kwonly', [])]


def positional_names(spec):
  return list(spec.get('pos', [])) + [n for n, _ in spec.get('dflt', [])]


def default_values(spec):
  d = {n: v for n, v in spec.get('dflt', [])}
  d.update({n: v for n, has, v in spec.get('kwonly', []) if has})
  return d


class Probe:
  """A generated configurable.  Attributes: name, module, selector, spec, original, conf, twin, pid."""

  def configurable_params(self):
    """Names the binding APIs must accept (None in the second slot = any name, via **kwargs)."""
    names = all_named(self.spec)
    allow, deny = self.spec.get('allow'), self.spec.get('deny')
    if allow:
      names = [n for n in names if n in allow]
    if deny:
      names = [n for n in names if n not in deny]
    return names


def make_defaults(spec, objects=None):
  """Materialise default values; {'__obj__': tag} -> a fresh opaque object."""
  out = {}
  for n, v in default_values(spec).items():
    if isinstance(v, dict) and '__obj__' in v:
      out[n] = (objects or {}).setdefault(v['__obj__'], Opaque(v['__obj__']))
    elif isinstance(v, dict) and '__required__' in v:
      import gin
      out[n] = gin.REQUIRED
    else:
      out[n] = v
  return out


class Opaque:
  """A value with no literal representation."""

  def __init__(self, tag):
    self.tag = tag

  def __repr__(self):
    return '<Opaque %s>' % self.tag


class PermissiveBase:

  def __init__(self, *args, **kwargs):
    self.init_saw = (args, kwargs)


def build(spec, register=True):
  """Create (and by default register) a probe from `spec`.

  spec: shape fn|init|new|method, api configurable|register|external, name, module,
        pos, dflt, varargs, kwonly, varkw, allow, deny, [cls_name for methods]
  """
  import gin
  with _lock:
    n = next(_counter)
  p = Probe()
  p.spec = spec
  p.pid = 'p%d' % n
  p.name = spec.get('name') or ('P%d' % n)
  p.module = spec.get('module') or 'vfp.m'
  D = make_defaults(spec)
  p.defaults = D
  rec = RECORDER.rec
  shape = spec['shape']
  params = params_source(spec)
  recv = recv_source(spec)
  g = {'VF_D': D, 'VF_rec': rec, 'VF_PID': p.pid, '__name__': spec.get('pymodule', 'vfprobes'), 'VF_ctr': itertools.count()}
  twin_src = 'def VF_twin(%s):\n  return %s\n' % (params, recv)
  exec(twin_src, g)  # pylint: disable=exec-used
  p.twin = g['VF_twin']
  if shape == 'fn':
    src = ('def %s(%s):\n  """doc of %s"""\n  VF_rec(VF_PID, %s)\n  return ["ret", VF_PID, next(VF_ctr)]\n' %
           (p.name, params, p.name, recv))
    exec(src, g)  # pylint: disable=exec-used
    p.original = g[p.name]
  elif shape in ('init', 'new'):
    sp = (', ' + params) if params else ''
    if shape == 'init':
      src = ('class %s:\n  """doc of %s"""\n  def __init__(self%s):\n    self.rec = VF_rec(VF_PID, %s)\n' %
             (p.name, p.name, sp, recv))
    else:
      # base_init: __new__ is the nearest construction method, a permissive __init__ is inherited from further up the MRO
      base = '(VF_PermissiveBase)' if spec.get('base_init') else ''
      g['VF_PermissiveBase'] = PermissiveBase
      src = ('class %s%s:\n  """doc of %s"""\n  def __new__(cls%s):\n    o = object.__new__(cls)\n'
             '    o.rec = VF_rec(VF_PID, %s)\n    return o\n' % (p.name, base, p.name, sp, recv))
    exec(src, g)  # pylint: disable=exec-used
    p.original = g[p.name]
  elif shape in ('callable', 'boundmethod'):
    # a callable object / a bound method handed to external_configurable: `self` is bound, the caller never passes it
    sp = (', ' + params) if params else ''
    mname = '__call__' if shape == 'callable' else 'run'
    src = ('class VF_Holder:\n  """doc of %s"""\n  def %s(self%s):\n    VF_rec(VF_PID, %s)\n    return ["ret", VF_PID, next(VF_ctr)]\n' %
           (p.name, mname, sp, recv))
    exec(src, g)  # pylint: disable=exec-used
    inst = g['VF_Holder']()
    p.original = inst if shape == 'callable' else inst.run
  elif shape == 'method':
    sp = (', ' + params) if params else ''
    cname = spec.get('cls_name') or ('K%d' % n)
    p.cls_name = cname
    src = ('class %s:\n  """doc of %s"""\n  def __init__(self, c=0):\n    self.c = c\n'
           '  def %s(self%s):\n    VF_rec(VF_PID, %s)\n    return ["ret", VF_PID, next(VF_ctr)]\n' %
           (cname, cname, p.name, sp, recv))
    # where the class is defined: at module level, nested in another class, or local to a function (its methods' qualified names then
    # read Outer.K.m / make.<locals>.K.m)
    nesting = spec.get('cls_nesting', ('module', 'class', 'function')[n % 3])
    if nesting == 'class':
      src = 'class VF_Outer:\n' + ''.join('  ' + l + '\n' for l in src.splitlines())
      exec(src, g)  # pylint: disable=exec-used
      p.cls = g['VF_Outer'].__dict__[cname]
    elif nesting == 'function':
      src = 'def VF_make():\n' + ''.join('  ' + l + '\n' for l in src.splitlines()) + '  return %s\n' % cname
      exec(src, g)  # pylint: disable=exec-used
      p.cls = g['VF_make']()
    else:
      exec(src, g)  # pylint: disable=exec-used
      p.cls = g[cname]
    p.original = p.cls.__dict__[p.name]
  else:
    raise ValueError(shape)
  p.source = src
  if register:
    do_register(p)
  return p


def do_register(p):
  import gin
  spec = p.spec
  kw = {}
  if spec.get('allow'):
    kw['allowlist'] = list(spec['allow'])
  if spec.get('deny'):
    kw['denylist'] = list(spec['deny'])
  api = spec.get('api', 'configurable')
  if spec['shape'] in ('callable', 'boundmethod'):
    api = 'external'
  if spec['shape'] == 'method':
    # the method is registered on the plain function, then the class is registered
    gin.register(module=None, **kw)(p.original)
    gin.register(p.cls_name, module=p.module)(p.cls)
    p.selector = '%s.%s.%s' % (p.module, p.cls_name, p.name)
    p.cls_selector = '%s.%s' % (p.module, p.cls_name)
    p.conf = None
    p.key_selector = '%s.%s' % (p.cls_name, p.name)
    return p
  if api == 'configurable':
    p.conf = gin.configurable(p.name, module=p.module, **kw)(p.original)
  elif api == 'register':
    r = gin.register(p.name, module=p.module, **kw)(p.original)
    assert r is p.original
    p.conf = gin.get_configurable(p.original)
  elif api == 'external':
    p.conf = gin.external_configurable(p.original, p.name, module=p.module, **kw)
  else:
    raise ValueError(api)
  p.selector = '%s.%s' % (p.module, p.name)
  p.key_selector = p.name
  return p


def call_probe(p, P, K, path='direct'):
  """Call the gin-aware version of probe `p` through access path `path`."""
  import gin
  if p.spec['shape'] == 'method':
    inst = gin.get_configurable(p.cls)()
    return getattr(inst, p.name)(*P, **K)
  if path == 'direct':
    fn = p.conf
  elif path == 'object':
    fn = gin.get_configurable(p.original if p.spec.get('api') != 'configurable' else p.conf)
  elif path == 'selector':
    fn = gin.get_configurable(p.selector)
  elif path == 'short':
    fn = gin.get_configurable(p.name)
  else:
    raise ValueError(path)
  return fn(*P, **K)


def gen_spec(rng, shapes=('fn', 'init', 'new', 'method'), apis=('configurable', 'register', 'external'),
             lists=True, max_pos=3):
  """Random signature spec.  Default values are small literals tagged with the param name."""
  shape = rng.choice(shapes)
  api = rng.choice(apis)
  npos = rng.randrange(0, max_pos + 1)
  ndf = rng.randrange(0, 3)
  nkw = rng.randrange(0, 3)
  spec = {
      'shape': shape, 'api': api,
      'pos': ['p%d' % i for i in range(npos)],
      'dflt': [['d%d' % i, 'dflt-d%d' % i] for i in range(ndf)],
      'varargs': rng.random() < 0.3,
      'kwonly': [['k%d' % i, rng.random() < 0.6, 'dflt-k%d' % i] for i in range(nkw)],
      'varkw': rng.random() < 0.3,
  }
  for kw in spec['kwonly']:
    if not kw[1]:
      kw[2] = None
  if shape == 'new' and npos % 2 == 0:
    spec['base_init'] = True
  if shape in ('init', 'new') and spec['dflt'] and nkw == 1:
    # a parameter that happens to be called like a parameter of Gin's own wrappers
    spec['dflt'][0][0] = 'new_cls'
    spec['dflt'][0][1] = 'dflt-new_cls'
  if lists and rng.random() < 0.35:
    names = all_named(spec)
    if names:
      chosen = [n for n in names if rng.random() < 0.5] or [names[0]]
      spec['allow' if rng.random() < 0.5 else 'deny'] = chosen
  return spec
