"""pytest plugin: run the repository's own tests as a workload under the online monitors (vf/online.py).

  PYTHONPATH=/verif:<repo> VF_ONLINE=scope,lock VF_ONLINE_OUT=<file> python -m pytest -p vf.suiteplug tests/...

The monitors never raise into a test; what they saw is written to VF_ONLINE_OUT at the end of the session.
"""
import json
import os

from vf import online

_M = [None]


def pytest_configure(config):
  which = [w for w in os.environ.get('VF_ONLINE', '').split(',') if w]
  if not which:
    return
  import gin
  m = online.Online(which)
  if 'clear' in which:
    # the pristine state of THIS process (the suite's modules are not imported yet, nothing is bound)
    gin.clear_config()
    m.gin, m.gc = gin, gin.config
    m.pristine = m.observe()
  if os.environ.get('VF_ONLINE_RTCLASS'):
    from vf import foreign
    m.rt_classifier = foreign.classify_rt
  from vf import foreign as _foreign
  m.parse_failure_classifier = _foreign.classify_parse_failure
  m.install()
  _M[0] = m


def pytest_runtest_setup(item):
  online.set_label(item.nodeid)
  if _M[0] is not None:
    _M[0].count('tests_run')


def pytest_sessionfinish(session, exitstatus):
  m = _M[0]
  if m is None:
    return
  m.uninstall()
  out = os.environ.get('VF_ONLINE_OUT')
  rep = m.report()
  rep['exitstatus'] = int(exitstatus)
  if out:
    with open(out, 'w') as f:
      json.dump(rep, f, indent=1, default=repr)
