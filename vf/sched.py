"""Deterministic cooperative scheduler for real threads, driven by sys.monitoring LINE events.

Controlled threads are serialised: exactly one is active; at every LINE event inside the
instrumented code (gin/*.py of the repository under test) the active thread asks the policy
whether to hand over.  Threads are addressed by logical index, so a run is a pure function of
(scenario, policy, seed).  Locks found in gin.config's globals are swapped for cooperative
proxies so a thread that needs a held lock is descheduled instead of blocking the process.
"""
import hashlib
import os
import sys
import threading
import types

TOOL = 4  # a free sys.monitoring tool id
MON = sys.monitoring


class SchedDeadlock(Exception):
  pass


class SchedAbort(BaseException):
  pass


def gin_code_objects(root):
  """All code objects whose co_filename lives under <root>/gin/."""
  import gin  # noqa
  prefix = os.path.join(root, 'gin') + os.sep
  seen, out = set(), []

  def add_code(co):
    if id(co) in seen or not isinstance(co, types.CodeType):
      return
    seen.add(id(co))
    if co.co_filename.startswith(prefix):
      out.append(co)
      for c in co.co_consts:
        add_code(c)

  def visit(obj, depth=0):
    if isinstance(obj, types.FunctionType):
      add_code(obj.__code__)
      w = getattr(obj, '__wrapped__', None)
      if w is not None and depth < 4:
        visit(w, depth + 1)
    elif isinstance(obj, (staticmethod, classmethod)):
      visit(obj.__func__, depth)
    elif isinstance(obj, property):
      for f in (obj.fget, obj.fset, obj.fdel):
        if f:
          visit(f, depth)
    elif isinstance(obj, type) and depth < 3:
      for v in list(vars(obj).values()):
        visit(v, depth + 1)

  for name, mod in list(sys.modules.items()):
    if mod is None or not getattr(mod, '__file__', None):
      continue
    if os.path.realpath(mod.__file__).startswith(prefix):
      for v in list(vars(mod).values()):
        visit(v)
  return out


class CoopLock:
  """Cooperative stand-in for threading.Lock / RLock under the scheduler."""

  def __init__(self, sched, reentrant, name):
    self.sched, self.reentrant, self.name = sched, reentrant, name
    self.owner = None
    self.count = 0

  def acquire(self, blocking=True, timeout=-1):
    s = self.sched
    me = s.me()
    if me is None:  # uncontrolled thread: spin politely (never happens inside scenarios)
      while self.owner is not None and not (self.reentrant and self.owner == ('ext', threading.get_ident())):
        threading.Event().wait(0.0005)
      self.owner = ('ext', threading.get_ident())
      self.count += 1
      return True
    while True:
      if self.owner is None:
        self.owner, self.count = me, 1
        s.lock_events += 1
        return True
      if self.reentrant and self.owner == me:
        self.count += 1
        return True
      if not blocking:
        return False
      s.block_on(me, self)

  def release(self):
    self.count -= 1
    if self.count <= 0:
      self.owner, self.count = None, 0
      self.sched.unblock(self)

  def locked(self):
    return self.owner is not None

  __enter__ = acquire

  def __exit__(self, *a):
    self.release()


class _ThreadingProxy:
  """Stands in for the `threading` module inside the monitored module: locks created at run time are cooperative."""

  def __init__(self, sched):
    self._sched = sched
    self._n = 0

  def RLock(self):  # pylint: disable=invalid-name
    self._n += 1
    return CoopLock(self._sched, True, 'runtime-rlock-%d' % self._n)

  def Lock(self):  # pylint: disable=invalid-name
    self._n += 1
    return CoopLock(self._sched, False, 'runtime-lock-%d' % self._n)

  def __getattr__(self, name):
    return getattr(threading, name)


def _forget_lock_dicts(module):
  """Empty module-level dicts that hold nothing but locks (per-key locks created in the other mode must not be carried over)."""
  lock_types = (type(threading.Lock()), type(threading.RLock()), CoopLock)
  for v in list(vars(module).values()):
    if isinstance(v, dict) and v and all(isinstance(x, lock_types) for x in v.values()):
      v.clear()


class Policy:
  """Decides hand-overs.  All decisions are functions of logical indices and the seeded rng."""

  def __init__(self, kind, rng=None, p=0.05, depth=2, nthreads=2, est_steps=1000, preempt=None):
    self.kind, self.rng, self.p = kind, rng, p
    self.preempt = preempt  # (thread, step_in_thread, target); for kind 'preempt2' a list of such triples, each firing once
    self.fired = False
    self.fired2 = set()
    if kind == 'pct':
      self.prio = list(range(nthreads))
      rng.shuffle(self.prio)
      self.prio = [x + depth for x in self.prio]
      self.change = sorted(rng.randrange(1, max(2, est_steps)) for _ in range(depth - 1))
      self.low = depth - 1

  def first(self, runnable):
    if self.kind == 'pct':
      return max(runnable, key=lambda t: self.prio[t])
    if self.kind == 'random':
      return self.rng.choice(runnable)
    if self.kind == 'preempt' and self.preempt[0] in runnable:
      return self.preempt[0]
    if self.kind == 'preempt2' and self.preempt[0][0] in runnable:
      return self.preempt[0][0]
    return runnable[0]

  def at_step(self, me, my_step, global_step, runnable):
    """Return the thread to hand over to, or None to continue."""
    others = [t for t in runnable if t != me]
    if not others:
      return None
    if self.kind == 'random':
      if self.rng.random() < self.p:
        return self.rng.choice(others)
      return None
    if self.kind == 'pct':
      while self.change and global_step >= self.change[0]:
        self.change.pop(0)
        self.prio[me] = self.low
        self.low -= 1
      best = max(runnable, key=lambda t: self.prio[t])
      return best if best != me else None
    if self.kind == 'preempt':
      t, k, j = self.preempt
      if not self.fired and me == t and my_step == k and j in others:
        self.fired = True
        return j
      return None
    if self.kind == 'preempt2':
      for i, (t, k, j) in enumerate(self.preempt):
        if i not in self.fired2 and me == t and my_step == k and j in others:
          self.fired2.add(i)
          return j
      return None
    return None

  def on_done_or_block(self, me, runnable):
    if self.kind == 'pct':
      return max(runnable, key=lambda t: self.prio[t])
    if self.kind == 'random':
      return self.rng.choice(runnable)
    if self.kind == 'preempt' and self.fired and self.preempt[0] in runnable:
      return self.preempt[0]  # resume the preempted thread
    return runnable[0]


class Scheduler:
  def __init__(self, root):
    self.root = root
    self.codes = None
    self.installed = False
    self.cv = threading.Condition()
    self.reset(None, 0)

  # -- instrumentation ----------------------------------------------------
  def install(self):
    if self.installed:
      return
    self.codes = gin_code_objects(self.root)
    if not self.codes:
      raise RuntimeError('no gin code objects found under %s' % self.root)
    MON.use_tool_id(TOOL, 'vf-sched')
    MON.register_callback(TOOL, MON.events.LINE, self._on_line)
    for co in self.codes:
      MON.set_local_events(TOOL, co, MON.events.LINE)
    self.installed = True

  def uninstall(self):
    if not self.installed:
      return
    for co in self.codes:
      MON.set_local_events(TOOL, co, 0)
    MON.register_callback(TOOL, MON.events.LINE, None)
    MON.free_tool_id(TOOL)
    self.installed = False

  def swap_locks(self, module):
    """Replace Lock/RLock objects in `module` globals by cooperative proxies; returns undo list.

    Locks the module creates later (e.g. one lock per key, kept in a dict) are cooperative too: the name `threading` in the module's
    namespace is replaced by a proxy whose Lock/RLock build CoopLocks. Dicts of locks left over from the other mode are emptied."""
    undo = []
    lock_t, rlock_t = type(threading.Lock()), type(threading.RLock())
    for k, v in list(vars(module).items()):
      if isinstance(v, (lock_t, rlock_t)):
        undo.append((module, k, v))
        setattr(module, k, CoopLock(self, isinstance(v, rlock_t), k))
    if getattr(module, 'threading', None) is threading:
      undo.append((module, 'threading', threading))
      setattr(module, 'threading', _ThreadingProxy(self))
    _forget_lock_dicts(module)
    return undo

  @staticmethod
  def restore_locks(undo):
    for module, k, v in undo:
      setattr(module, k, v)
    for module in {m for m, _, _ in undo}:
      _forget_lock_dicts(module)

  # -- per-run state --------------------------------------------------------
  def reset(self, policy, nthreads, max_steps=400000):
    self.policy = policy
    self.n = nthreads
    self.ident2idx = {}
    self.active = None
    self.done = [False] * nthreads
    self.blocked = [None] * nthreads
    self.steps = [0] * nthreads
    self.global_step = 0
    self.trace = []
    self.points = set()
    self.deadlock = False
    self.abort = False
    self.max_steps = max_steps
    self.lock_events = 0
    self.switches = 0
    self.where = [None] * nthreads

  def me(self):
    return self.ident2idx.get(threading.get_ident())

  def runnable(self):
    return [t for t in range(self.n) if not self.done[t] and self.blocked[t] is None and t in self.ident2idx.values()]

  # -- the LINE callback ----------------------------------------------------
  def _on_line(self, code, line):
    me = self.ident2idx.get(threading.get_ident())
    if me is None or self.active != me:
      return
    self.steps[me] += 1
    self.global_step += 1
    self.where[me] = (code.co_name, line)
    if self.global_step > self.max_steps:
      self.abort = True
    if self.abort:
      raise SchedAbort()
    nxt = self.policy.at_step(me, self.steps[me], self.global_step, self.runnable())
    if nxt is not None and nxt != me:
      self._handover(me, nxt, (code.co_name, line))

  def _handover(self, me, nxt, where):
    self.trace.append((me, self.steps[me], where[0], where[1], nxt))
    self.points.add(where)
    self.switches += 1
    with self.cv:
      self.active = nxt
      self.cv.notify_all()
      while self.active != me and not self.abort:
        self.cv.wait(5.0)
    if self.abort:
      raise SchedAbort()

  def block_on(self, me, lock):
    self.blocked[me] = lock
    r = self.runnable()
    if not r:
      self.deadlock = True
      self.abort = True
      with self.cv:
        self.cv.notify_all()
      self.blocked[me] = None
      raise SchedDeadlock('thread %d blocked on %s held by %r; nobody runnable' % (me, lock.name, lock.owner))
    nxt = self.policy.on_done_or_block(me, r)
    self.trace.append((me, self.steps[me], 'lock:' + lock.name, 0, nxt))
    self.points.add(('lock-wait', lock.name))
    with self.cv:
      self.active = nxt
      self.cv.notify_all()
      while (self.active != me) and not self.abort:
        self.cv.wait(5.0)
    if self.abort:
      raise SchedDeadlock('aborted while waiting for %s' % lock.name)

  def unblock(self, lock):
    for t in range(self.n):
      if self.blocked[t] is lock:
        self.blocked[t] = None

  # -- running a scenario -----------------------------------------------------
  def run(self, fns, policy, timeout=60.0):
    """Run callables as controlled threads under `policy`.  Returns dict(results, errors, trace...)."""
    n = len(fns)
    self.reset(policy, n)
    results, errors = [None] * n, [None] * n
    ready = threading.Semaphore(0)

    def body(i):
      self.ident2idx[threading.get_ident()] = i
      ready.release()
      with self.cv:
        while self.active != i and not self.abort:
          self.cv.wait(5.0)
      try:
        if not self.abort:
          results[i] = fns[i]()
      except SchedAbort:
        errors[i] = ('abort', None)
      except BaseException as e:  # pylint: disable=broad-except
        errors[i] = (type(e).__name__, e)
      finally:
        self.done[i] = True
        # a finished thread may still own a lock only through a bug; release waiters anyway
        r = self.runnable()
        with self.cv:
          if r:
            self.active = self.policy.on_done_or_block(i, r)
          else:
            self.active = -1
            if any(b is not None for b in self.blocked) and not all(self.done):
              self.deadlock = True
              self.abort = True
          self.cv.notify_all()

    threads = [threading.Thread(target=body, args=(i,), name='vf-t%d' % i, daemon=True) for i in range(n)]
    for t in threads:
      t.start()
    for _ in threads:
      ready.acquire()
    with self.cv:
      self.active = policy.first(list(range(n)))
      self.cv.notify_all()
    timed_out = False
    for t in threads:
      t.join(timeout)
      if t.is_alive():
        timed_out = True
        self.abort = True
        with self.cv:
          self.cv.notify_all()
    for t in threads:
      t.join(2.0)
    self.ident2idx = {}   # thread idents are reused by later, uncontrolled threads
    h = hashlib.blake2b(repr(self.trace).encode(), digest_size=8).hexdigest()
    return {'results': results, 'errors': errors, 'trace': list(self.trace), 'trace_hash': h, 'steps': list(self.steps),
            'switches': self.switches, 'points': set(self.points), 'deadlock': self.deadlock, 'timed_out': timed_out,
            'aborted': self.abort and not self.deadlock, 'lock_events': self.lock_events}


def free_run(fns, switch_interval=1e-6, timeout=60.0):
  """Free-running stress: real threads, barrier start, tiny switch interval."""
  n = len(fns)
  results, errors = [None] * n, [None] * n
  bar = threading.Barrier(n)
  old = sys.getswitchinterval()
  sys.setswitchinterval(switch_interval)

  def body(i):
    try:
      bar.wait(10)
      results[i] = fns[i]()
    except BaseException as e:  # pylint: disable=broad-except
      errors[i] = (type(e).__name__, e)

  threads = [threading.Thread(target=body, args=(i,), daemon=True) for i in range(n)]
  try:
    for t in threads:
      t.start()
    timed_out = False
    for t in threads:
      t.join(timeout)
      timed_out = timed_out or t.is_alive()
  finally:
    sys.setswitchinterval(old)
  return {'results': results, 'errors': errors, 'timed_out': timed_out}
