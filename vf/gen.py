"""Generators: Python literal values, layout-randomised renderings, near-misses, names."""
import ast
import io
import tokenize

LETTERS = 'abcdefghijklmnopqrstuvwxyz'
RAW_CONTROL = '\x0b\x0c\x1c\x1d\x1e\x1f\x85\u2028\u2029'
CHAR_POOL = list("abcXYZ019 _-+=*/.,:;!?#@%$&|<>()[]{}'\"\\\n\t\r\0\x7f\xe9☃\U0001f600\x0b\x0c\x1c\x1d\x1e\x1f\x85\u2028\u2029") + ['  ', 'ab', "''", '""', "'''", '"""', '\\n', '#x', '@f()', '%m']


# ---------------------------------------------------------------------------
# values


def gen_scalar(rng, hashable_only=False):
  k = rng.randrange(12)
  if k == 0:
    return None
  if k == 1:
    return rng.random() < 0.5
  if k in (2, 3):
    return rng.choice([0, 1, -1, 7, 255, -4096, 10**12, -(10**25), rng.randrange(-1000, 1000)])
  if k in (4, 5):
    return rng.choice([0.0, -0.0, 1.5, -2.25, 1e10, 1e-7, 3.0, 1e300, -1e-300, rng.uniform(-100, 100),
                       float('%.3g' % rng.uniform(-1e6, 1e6))])
  if k == 6:
    return rng.choice([1j, -2.5j, 0j, 3e5j])
  if k == 7:
    return gen_bytes(rng)
  return gen_str(rng)


def gen_str(rng):
  n = rng.choice([0, 0, 1, 1, 2, 3, 5, 8, 13])
  if rng.random() < 0.03:
    n = rng.choice([60, 120, 200])
  return ''.join(rng.choice(CHAR_POOL) for _ in range(n))


def gen_bytes(rng):
  n = rng.choice([0, 1, 2, 4, 7])
  return bytes(rng.choice([0, 9, 10, 13, 32, 34, 39, 35, 64, 65, 92, 97, 122, 127, 128, 200, 255]) for _ in range(n))


def gen_key(rng, depth=1):
  if depth > 0 and rng.random() < 0.15:
    return tuple(gen_key(rng, depth - 1) for _ in range(rng.randrange(0, 3)))
  return gen_scalar(rng, True)


def gen_value(rng, depth=3):
  if depth <= 0 or rng.random() < 0.4:
    return gen_scalar(rng)
  k = rng.randrange(3)
  n = rng.choice([0, 1, 1, 2, 2, 3, 4])
  if k == 0:
    return [gen_value(rng, depth - 1) for _ in range(n)]
  if k == 1:
    return tuple(gen_value(rng, depth - 1) for _ in range(n))
  return {gen_key(rng): gen_value(rng, depth - 1) for _ in range(n)}


def kind_of(v):
  t = type(v)
  if t in (list, tuple, dict):
    return t.__name__ + ('0' if not v else ('1' if len(v) == 1 else 'n'))
  return t.__name__


def kinds_in(v, out=None):
  out = set() if out is None else out
  out.add(kind_of(v))
  if type(v) in (list, tuple):
    for x in v:
      kinds_in(x, out)
  elif type(v) is dict:
    for k, x in v.items():
      kinds_in(k, out)
      kinds_in(x, out)
  return out


def depth_of(v):
  if type(v) in (list, tuple):
    return 1 + max([depth_of(x) for x in v] or [0])
  if type(v) is dict:
    return 1 + max([max(depth_of(k), depth_of(x)) for k, x in v.items()] or [0])
  return 0


# ---------------------------------------------------------------------------
# rendering


class Layout:
  """Layout randomiser.  wild=0 gives canonical repr-like text."""

  def __init__(self, rng, wild=0.5, multiline=True, dup_keys=False):
    self.rng = rng
    self.dup_keys = dup_keys      # only for oracles that evaluate the rendered TEXT (C02): the value differs from the one rendered
    self.wild = wild
    self.multiline = multiline
    self.used = set()

  def flip(self, p=None):
    return self.rng.random() < (self.wild if p is None else p)

  def ws(self, in_bracket):
    """whitespace between tokens"""
    r = self.rng
    if not self.flip():
      return ''
    if in_bracket and self.multiline and r.random() < 0.45:
      k = r.randrange(4)
      if k == 0:
        self.used.add('nl-in-bracket')
        return '\n' + ' ' * r.randrange(0, 9)
      if k == 1:
        self.used.add('comment-in-bracket')
        return '  # c%d [1, (\n' % r.randrange(9) + ' ' * r.randrange(0, 6)
      if k == 2:
        self.used.add('blank-in-bracket')
        return '\n\n\t'
      self.used.add('nl-in-bracket')
      return ' \n'
    if (not in_bracket) and self.multiline and r.random() < 0.15:
      self.used.add('backslash-cont')
      return ' \\\n' + ' ' * r.randrange(0, 5)
    return r.choice([' ', '  ', '\t', ' '])


def render_int(L, v):
  r = L.rng
  neg = v < 0
  a = -v if neg else v
  form = 'dec'
  if L.flip(L.wild * 0.6):
    form = r.choice(['hex', 'HEX', 'oct', 'bin', 'us', 'dec'])
  if form == 'hex':
    s = hex(a)
  elif form == 'HEX':
    s = '0X' + ('%X' % a)
  elif form == 'oct':
    s = oct(a)
  elif form == 'bin':
    s = bin(a)
  elif form == 'us':
    d = str(a)
    s = '_'.join([d[max(0, i - 3):i] for i in range(len(d), 0, -3)][::-1]) if len(d) > 3 else d
  else:
    s = str(a)
  L.used.add('int-' + form)
  if neg or (a == 0 and L.flip(0.1)):
    L.used.add('minus')
    return '-' + L.ws(False).replace('\\\n', '') + s if not L.flip(0.2) else '-' + s
  return s


def render_float(L, v):
  r = L.rng
  s = repr(v)
  neg = s.startswith('-')
  a = s[1:] if neg else s
  if L.flip(L.wild * 0.5) and 'e' not in a and 'inf' not in a and 'nan' not in a:
    ip, _, fp = a.partition('.')
    k = r.randrange(4)
    if k == 0 and fp == '0':
      a = ip + '.'
      L.used.add('float-trailing-dot')
    elif k == 1 and ip == '0' and fp != '0':
      a = '.' + fp
      L.used.add('float-leading-dot')
    elif k == 2:
      a = a + 'e0' if r.random() < 0.5 else a + 'E+0'
      L.used.add('float-exp')
    elif k == 3 and len(ip) > 3:
      a = ip[:-3] + '_' + ip[-3:] + '.' + fp
      L.used.add('float-us')
  elif 'e' in a:
    L.used.add('float-exp')
  if neg:
    L.used.add('minus')
    return '-' + (' ' if L.flip(0.3) else '') + a
  return a


def render_complex(L, v):
  # only pure-imaginary values are generated
  im = v.imag
  s = repr(im)
  if s.endswith('.0'):
    s = s[:-2] if L.flip(0.5) else s
  neg = s.startswith('-')
  a = s[1:] if neg else s
  a += 'J' if L.flip(0.3) else 'j'
  L.used.add('imag')
  return ('-' + a) if neg else a


_ESC = {'\n': '\\n', '\t': '\\t', '\r': '\\r', '\\': '\\\\', '\0': '\\0', '\x07': '\\a'}


def _render_piece(L, s, is_bytes):
  """Render one str/bytes piece; returns text whose eval equals s."""
  r = L.rng
  canonical = repr(s)
  if not L.flip():
    L.used.add('str-repr')
    return canonical
  q = r.choice(["'", '"', "'''", '"""'])
  chars = [chr(b) for b in s] if is_bytes else list(s)
  raw_ok = ('\\' not in chars and '\r' not in chars and '\0' not in chars and
            not any(c in chars for c in q[0]) and (len(q) == 3 or '\n' not in chars) and
            all((ord(c) < 128 and (c.isprintable() or c in '\n\t')) or not is_bytes for c in chars) and
            all(c.isprintable() or c in '\n\t' for c in chars))
  prefix = ''
  if raw_ok and r.random() < 0.4:
    prefix = r.choice(['r', 'R'])
    body = ''.join(chars)
    if is_bytes:
      prefix = r.choice(['rb', 'br', 'Rb', 'bR', 'BR', 'rB'])
    L.used.add('prefix-raw')
  else:
    out = []
    for c in chars:
      o = ord(c)
      k = r.randrange(10)
      plain_ok = (c.isprintable() and c != '\\' and c not in q[0] and (o < 128 or not is_bytes))
      if c == '\n' and len(q) == 3 and k < 5:
        out.append('\n')
        L.used.add('literal-newline-in-triple')
      elif plain_ok and k < 7:
        out.append(c)
      elif c in RAW_CONTROL and k < 6 and (o < 128 or not is_bytes):
        # characters str.splitlines() treats as line boundaries but Python's source reader as ordinary characters
        out.append(c)
        L.used.add('raw-control-char')
      elif c in _ESC and k < 9 and c != '\0':
        out.append(_ESC[c])
        L.used.add('esc-named')
      elif c in '\'"' and k < 9:
        out.append('\\' + c)
        L.used.add('esc-quote')
      elif o < 256 and (k % 2 == 0 or is_bytes):
        if r.random() < 0.5:
          out.append('\\x%02x' % o)
          L.used.add('esc-hex')
        else:
          out.append('\\%03o' % o)
          L.used.add('esc-oct')
      elif o < 0x10000:
        out.append('\\u%04x' % o)
        L.used.add('esc-u')
      else:
        out.append('\\U%08x' % o)
        L.used.add('esc-U')
    body = ''.join(out)
    if is_bytes:
      prefix = r.choice(['b', 'B'])
    elif r.random() < 0.15:
      prefix = r.choice(['u', 'U'])
      L.used.add('prefix-u')
  text = prefix + q + body + q
  L.used.add('quote-' + {"'": 'sq', '"': 'dq', "'''": 'tsq', '"""': 'tdq'}[q])
  try:
    ok = eval(text, {}) == s and type(eval(text, {})) is type(s)  # pylint: disable=eval-used
  except Exception:  # pylint: disable=broad-except
    ok = False
  if not ok:
    L.used.add('str-repr')
    return canonical
  if is_bytes:
    L.used.add('bytes')
  return text


def render_str(L, s, in_bracket):
  r = L.rng
  is_bytes = isinstance(s, bytes)
  npieces = 1
  if L.flip(L.wild * 0.7):
    npieces = r.choice([2, 2, 3, 4])
  if npieces == 1:
    return _render_piece(L, s, is_bytes)
  cuts = sorted(r.randrange(0, len(s) + 1) for _ in range(npieces - 1))
  pieces, prev = [], 0
  for c in cuts + [len(s)]:
    pieces.append(s[prev:c])
    prev = c
  if any(len(p) == 0 for p in pieces):
    L.used.add('adjacent-empty-piece')
  L.used.add('adjacent-%d' % npieces)
  out = _render_piece(L, pieces[0], is_bytes)
  for p in pieces[1:]:
    sep = L.ws(in_bracket)
    if sep == '' and r.random() < 0.7:
      sep = ' '
    nxt = _render_piece(L, p, is_bytes)
    if sep == '':
      # adjacent pieces without separator are only valid when the quotes do not merge ('' + '' -> '''')
      try:
        ok = eval('(' + out + nxt + ')', {}) == eval('(' + out + ' ' + nxt + ')', {})  # pylint: disable=eval-used
      except Exception:  # pylint: disable=broad-except
        ok = False
      if ok:
        L.used.add('adjacent-nosep')
      else:
        sep = ' '
    out += sep + nxt
  return out


def render(L, v, in_bracket=False):
  if in_bracket and L.flip(0.04):
    L.used.add('parenthesised-nested')
    return '(' + L.ws(True) + _render(L, v, True) + L.ws(True) + ')'
  return _render(L, v, in_bracket)


def _render(L, v, in_bracket=False):
  t = type(v)
  if v is None:
    return 'None'
  if t is bool:
    return 'True' if v else 'False'
  if t is int:
    return render_int(L, v)
  if t is float:
    return render_float(L, v)
  if t is complex:
    return render_complex(L, v)
  if t in (str, bytes):
    return render_str(L, v, in_bracket)
  if t in (list, tuple):
    o, c = ('[', ']') if t is list else ('(', ')')
    items = [render(L, x, True) for x in v]
    out = o + L.ws(True)
    for i, it in enumerate(items):
      out += it + L.ws(True)
      last = i == len(items) - 1
      if not last:
        out += ',' + L.ws(True)
      elif (t is tuple and len(items) == 1) or L.flip(0.3):
        out += ',' + L.ws(True)
        L.used.add('trailing-comma')
    if t is tuple and len(items) == 1:
      L.used.add('one-tuple')
    if not items:
      L.used.add('empty-' + t.__name__)
    return out + c
  if t is dict:
    out = '{' + L.ws(True)
    n = len(v)
    for i, (k, x) in enumerate(v.items()):
      if L.dup_keys and L.flip(0.12):
        # the same key written twice (possibly spelled differently, or an equal key of another type): Python keeps the last value
        dk = k
        if type(k) is int and k in (0, 1) and L.flip(0.5):
          dk = [False, True][k] if L.flip(0.5) else float(k)
        out += render(L, dk, True) + L.ws(True) + ':' + L.ws(True) + render(L, L.rng.choice([0, None, 'dup', [1], x]), True) + L.ws(True) + ',' + L.ws(True)
        L.used.add('dict-duplicate-key')
      out += render(L, k, True) + L.ws(True) + ':' + L.ws(True) + render(L, x, True) + L.ws(True)
      if i < n - 1:
        out += ',' + L.ws(True)
      elif L.flip(0.3):
        out += ',' + L.ws(True)
        L.used.add('trailing-comma')
    if not n:
      L.used.add('empty-dict')
    return out + '}'
  raise TypeError(t)


def render_value(rng, v, wild=0.5, multiline=True, dup_keys=False):
  L = Layout(rng, wild, multiline, dup_keys)
  text = render(L, v)
  if L.flip(0.15):
    # parenthesised value: still the value itself
    text = '(' + L.ws(True) + text + L.ws(True) + ')'
    L.used.add('parenthesised')
  return text, L.used


# ---------------------------------------------------------------------------
# near-miss mutations: text just outside the literal grammar

NEAR_OPS = [
    'binop', 'boolop', 'compare', 'unary-not', 'bare-name', 'name-true-none', 'call', 'attribute',
    'subscript', 'comprehension', 'lambda', 'ifexp', 'fstring', 'star', 'bracket-dropped',
    'bracket-mismatched', 'bracket-extra-close', 'junk-after-value', 'minus-nonnumber', 'double-minus',
    'bytes-str-mix', 'stray-char', 'missing-comma', 'double-comma', 'dict-missing-colon',
    'dict-missing-value', 'keyword', 'unterminated-string', 'semicolon', 'lone-comma', 'empty',
]


def near_miss(rng, base, op=None):
  """Returns (text, op).  `base` is a valid literal text (single line preferred)."""
  op = op or rng.choice(NEAR_OPS)
  b = base
  if op == 'binop':
    return '%s %s %s' % (b, rng.choice(['+', '*', '-', '/', '//', '%', '**', '<<', '|', '&', '^', '@']), rng.choice(['1', b, "'a'", '[2]'])), op
  if op == 'boolop':
    return '%s %s %s' % (b, rng.choice(['and', 'or']), rng.choice(['True', b])), op
  if op == 'compare':
    return '%s %s %s' % (b, rng.choice(['<', '==', '!=', 'in', 'is', 'not in', '>=']), rng.choice(['1', b])), op
  if op == 'unary-not':
    return rng.choice(['not ', '~', 'not not ']) + b, op
  if op == 'bare-name':
    return rng.choice(['foo', 'x', 'inf', 'nan', 'Ellipsis_', 'NONE', 'int', '_', '__debug__x', 'a.b', 'a/b']), op
  if op == 'name-true-none':
    return rng.choice(['true', 'false', 'none', 'TRUE', 'null', 'nil', 'Inf', 'NaN', 'yes']), op
  if op == 'call':
    return rng.choice(['int(1)', 'dict()', 'f()', 'list([1])', 'set()', 'print(1)', "str.upper('a')", 'float("inf")', '%s()' % b]), op
  if op == 'attribute':
    return rng.choice(["'a'.upper", '(1).real', '[].append', 'a.b.c', '%s.x' % b]), op
  if op == 'subscript':
    return rng.choice(['[1, 2][0]', "'ab'[1]", '{1: 2}[1]', '(1, 2)[:1]', '%s[0]' % b]), op
  if op == 'comprehension':
    return rng.choice(['[x for x in [1]]', '{x: 1 for x in (1,)}', '(x for x in [])', '[1 for _ in [1]]']), op
  if op == 'lambda':
    return rng.choice(['lambda: 1', 'lambda x: x', '[lambda: 0]']), op
  if op == 'ifexp':
    return '%s if %s else %s' % (b, rng.choice(['True', '1', b]), rng.choice(['0', b])), op
  if op == 'fstring':
    return rng.choice(["f'a'", 'f"{1}"', "F''", "rf'x'", "f'a' 'b'", "'a' f'b'"]), op
  if op == 'star':
    return rng.choice(['[*[1]]', '{**{}}', '(*(), 1)', '[1, *[2]]', '*[1]']), op
  if op == 'bracket-dropped':
    cands = ['[1, 2', '(1, 2', '{1: 2', "['a'", '[[1]', '{1: [2}', '(', '[', '{']
    return rng.choice(cands), op
  if op == 'bracket-mismatched':
    return rng.choice(['[1, 2)', '(1, 2]', '{1: 2]', '[1, 2}', '(1}', '[(1])']), op
  if op == 'bracket-extra-close':
    return rng.choice(['1]', '[1]]', '(1))', '{}}', "'a')", ')', ']']), op
  if op == 'junk-after-value':
    return b + ' ' + rng.choice(['1', 'x', '[2]', 'None', '@', '%', '=', '= 2', ')', '.', '...', '-', '"s" 1', '1.5', '@x', '%y', '$', '?', '!']), op
  if op == 'minus-nonnumber':
    core = '-' + rng.choice(['', ' ']) + rng.choice(["'a'", 'None', '[1]', '(1, 2)', '{}', "b'x'", 'x', '@%s' % rng.choice(['REF', 'REF()']), '%MACRO', '',
                                                     'True', 'False', 'True', '(True)', "''", '1j if 0 else 2'])
    return rng.choice(['%s', '%s', '[1, %s]', "{'k': %s}", '(%s,)']) % core, op
  if op == 'double-minus':
    return rng.choice(['--1', '- -1', '-+1', '---2.5', '- - 3j']), op
  if op == 'bytes-str-mix':
    return rng.choice(["b'a' 'b'", "'a' b'b'", "b'' ''", "'' b''", "[b'a' 'b']"]), op
  if op == 'stray-char':
    return rng.choice(['$', '?', '!', '1 $', '$1', '[1, $]', '`1`', '1?', "'a'!", '[!]', '\\', '[1 \\ ]']), op
  if op == 'missing-comma':
    return rng.choice(['[1 2]', '(1 2)', '{1: 2 3: 4}', "['a' 1]", '[1 [2]]', '[[1] [2]]', '[None None]', '(1.5 2)', "[1 'a']"]), op
  if op == 'double-comma':
    return rng.choice(['[1,, 2]', '[,]', '(,)', '{,}', '[1, 2,,]', '[, 1]', '{1: 2,, 3: 4}']), op
  if op == 'dict-missing-colon':
    return rng.choice(['{1 2}', "{'a' 'b': 1, 2}", '{1: 2, 3}', "{'a'}", '{1, 2: 3}']), op
  if op == 'dict-missing-value':
    return rng.choice(['{1: }', '{1: , 2: 3}', '{: 1}', '{1: 2: 3}', '{1:: 2}']), op
  if op == 'keyword':
    return rng.choice(['import', 'from', 'include', 'if', 'else', 'pass', 'return', 'def', 'class', 'in', 'is', 'and', 'not', 'lambda', 'await x', 'yield', 'print']), op
  if op == 'unterminated-string':
    return rng.choice(["'abc", '"abc', "'abc\"", "'''abc", '"""abc\'\'\'', "'a' 'b", "['a, 1]", "b'x", "r'\\'"]), op
  if op == 'semicolon':
    return rng.choice(['1; 2', '1;', '[1]; [2]', "'a';"]), op
  if op == 'lone-comma':
    return rng.choice([',', ', 1']), op
  if op == 'empty':
    return rng.choice(['', ' ', '  # just a comment', '\\', '# c']), op
  raise ValueError(op)


# ---------------------------------------------------------------------------
# classifier, independent of gin: is `text` inside the property's literal grammar?


def _abs_index(text, lineno, col):
  lines = text.split('\n')
  return sum(len(l) + 1 for l in lines[:lineno - 1]) + _col_chars(lines[lineno - 1], col)


def _col_chars(line, byte_col):
  return len(line.encode('utf8')[:byte_col].decode('utf8', 'ignore'))


def classify(text):
  """'in' | 'grey' | 'near' (parses as Python but outside the grammar) | 'invalid' (not a Python expression)."""
  src = text.strip()
  try:
    tree = ast.parse(src, mode='eval')
  except (SyntaxError, ValueError, MemoryError, RecursionError):
    return 'invalid'
  state = {'grey': False, 'near': False}

  def walk(n, top=False):
    if isinstance(n, ast.Constant):
      if n.value is Ellipsis:
        state['grey'] = True
      return
    if isinstance(n, ast.UnaryOp):
      if isinstance(n.op, ast.USub) and isinstance(n.operand, ast.Constant) and \
         type(n.operand.value) in (int, float, complex):
        return  # token-level check below separates `-1` from `-(1)`
      if isinstance(n.op, (ast.USub, ast.UAdd)):
        # +1, -(...), --1: Python may evaluate some; outside the stated grammar
        inner = n.operand
        while isinstance(inner, ast.UnaryOp) and isinstance(inner.op, (ast.USub, ast.UAdd)):
          inner = inner.operand
        if isinstance(inner, ast.Constant) and type(inner.value) in (int, float, complex):
          state['grey'] = True
        else:
          state['near'] = True
        return
      state['near'] = True
      return
    if isinstance(n, ast.BinOp):
      # literal_eval accepts  <real> +/- <imag>: arithmetic, but CPython calls it a literal -> grey
      if isinstance(n.op, (ast.Add, ast.Sub)) and isinstance(n.right, ast.Constant) and \
         type(n.right.value) is complex:
        l = n.left
        if isinstance(l, ast.UnaryOp) and isinstance(l.op, (ast.USub, ast.UAdd)):
          l = l.operand
        if isinstance(l, ast.Constant) and type(l.value) in (int, float):
          state['grey'] = True
          return
      state['near'] = True
      return
    if isinstance(n, (ast.List, ast.Tuple)):
      if isinstance(n, ast.Tuple):
        idx = _abs_index(src, n.lineno, n.col_offset)
        if src[idx:idx + 1] != '(':
          state['grey'] = True  # unparenthesised tuple
      for e in n.elts:
        if isinstance(e, ast.Starred):
          state['near'] = True
        else:
          walk(e)
      return
    if isinstance(n, ast.Dict):
      for k, v in zip(n.keys, n.values):
        if k is None:
          state['near'] = True
        else:
          walk(k)
          walk(v)
      return
    if isinstance(n, ast.Set):
      state['grey'] = True
      for e in n.elts:
        if isinstance(e, ast.Starred):
          state['near'] = True
        else:
          walk(e)
      return
    state['near'] = True

  walk(tree.body, True)
  if state['near']:
    return 'near'
  # token-level: every '-' must be directly followed by a NUMBER token; '+' is grey
  try:
    toks = [t for t in tokenize.generate_tokens(io.StringIO(src).readline)
            if t.type not in (tokenize.NL, tokenize.NEWLINE, tokenize.COMMENT, tokenize.INDENT,
                              tokenize.DEDENT, tokenize.ENDMARKER)]
  except (tokenize.TokenError, SyntaxError, IndentationError):
    return 'grey'
  for a, b in zip(toks, toks[1:] + [None]):
    if a.type == tokenize.OP and a.string == '-':
      if b is None or b.type != tokenize.NUMBER:
        state['grey'] = True
    if a.type == tokenize.OP and a.string == '+':
      state['grey'] = True
  return 'grey' if state['grey'] else 'in'


# ---------------------------------------------------------------------------
# names


def ident(rng, pool=None):
  return rng.choice(pool or ['a', 'b', 'c', 'ab', 'bc', 'A', 'a1', '_x', 'train', 'eval'])


def scope_path(rng, maxdepth=4, alphabet=('a', 'b', 'c')):
  return [rng.choice(alphabet) for _ in range(rng.randrange(0, maxdepth + 1))]
