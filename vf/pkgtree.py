"""Generated Python package trees for dynamic-registration checks (written under a temp dir put on sys.path)."""
import itertools
import os
import shutil
import sys
import tempfile

_n = itertools.count(1)

ALPHA = '''
import gin
CALLS = []
@gin.configurable('custom_{pk}')
def decorated(z=0):
  return ('{pk}.alpha.decorated', z)
class Outer:
  @gin.configurable('nested_{pk}')
  class Nested:
    def __init__(self, n=0):
      self.n = n
def fa(x=0, y=0):
  CALLS.append(('fa', x, y))
  return ('{pk}.alpha.fa', x, y)
def shared(v=0):
  return ('{pk}.alpha.shared', v)
import functools
def traced(fn):
  @functools.wraps(fn)
  def wrapper(*args, **kwargs):
    return ('traced',) + tuple(fn(*args, **kwargs))
  return wrapper
fa_traced = traced(fa)          # a decorated variant exported next to the base function: a different object
class K:
  """alpha.K"""
  def __init__(self, a=0, b=0):
    self.a, self.b = a, b
  def meth(self, m=0):
    return ('{pk}.alpha.K.meth', m, self.a)
  def other(self, o=0):
    return ('{pk}.alpha.K.other', o)
  class Inner:
    def __init__(self, i=0):
      self.i = i
    def deep(self, d=0):
      return ('{pk}.alpha.K.Inner.deep', d, self.i)
class Sub(K):
  """alpha.Sub: inherits its constructor and its methods from K"""
class S:
  """alpha.S: a class with a static and a class method"""
  def __init__(self, a=0):
    self.a = a
  @staticmethod
  def st(s=0):
    return ('{pk}.alpha.S.st', s)
  @classmethod
  def cm(cls, c=0):
    return ('{pk}.alpha.S.cm', c)
'''
BETA = '''
def fb(x=0):
  return ('{pk}.beta.fb', x)
def shared(v=0):
  return ('{pk}.beta.shared', v)
class K:
  """beta.K (same class name as alpha.K)"""
  def __init__(self, a=0):
    self.a = a
'''
SUB_ALPHA = '''
import gin
@gin.configurable('subcustom_{pk}')
def decorated(z=0):
  return ('{pk}.sub.alpha.decorated', z)
def fa(x=0):
  return ('{pk}.sub.alpha.fa', x)
class Deep:
  def __init__(self, q=0):
    self.q = q
'''
GAMMA = '''
def fg(x=0, ref=None):
  return ('{pk}.sub.gamma.fg', x, ref)
'''


class Tree:

  def __init__(self, root=None):
    self.root = root or tempfile.mkdtemp(prefix='vf-pk-')
    self.own_root = root is None
    if self.root not in sys.path:
      sys.path.insert(0, self.root)
    self.packages = []

  def new_package(self, tag=''):
    import importlib
    n = next(_n)
    # every third package has a capitalised name: such module names sort before `__gin__` and `_`-prefixed names
    pk = '%s%s%d' % ('Vfpk' if n % 3 == 0 else 'vfpk', tag, n)
    d = os.path.join(self.root, pk)
    os.makedirs(os.path.join(d, 'sub'))
    for rel, src in (('__init__.py', ''), ('alpha.py', ALPHA), ('beta.py', BETA), ('sub/__init__.py', ''), ('sub/alpha.py', SUB_ALPHA),
                     ('sub/gamma.py', GAMMA)):
      with open(os.path.join(d, rel), 'w') as f:
        f.write(src.replace('{pk}', pk))
    importlib.invalidate_caches()
    self.packages.append(pk)
    return pk

  def cleanup(self):
    if self.root in sys.path:
      sys.path.remove(self.root)
    if self.own_root:
      shutil.rmtree(self.root, ignore_errors=True)
