"""Typed structural equality: 'the value, of the same type'.

`==` is too weak (1 == 1.0 == True, 0.0 == -0.0); compare recursively with exact
type(), floats/complex by repr, dicts by *set* of items keyed by typed key
(insertion order is compared separately where a check cares), sequences
elementwise.  Gin references compare by (scoped selector text, evaluate flag).
"""
import math


def _is_ref(v):
  return type(v).__name__ in ('ConfigurableReference', '_UnknownConfigurableReference')


def ref_key(v):
  if type(v).__name__ == 'ConfigurableReference':
    return ('ref', '/'.join(list(v.scopes) + [v.configurable.selector]), bool(v.evaluate))
  return ('unk', v.selector, bool(v.evaluate))


def canon(v, ordered=True):
  """A hashable canonical form such that canon(a) == canon(b) iff teq(a, b).

  ordered=False ignores dict insertion order at every depth."""
  t = type(v)
  if _is_ref(v):
    return ref_key(v)
  if t in (float, complex):
    return (t.__name__, repr(v))
  if t in (int, bool, str, bytes, type(None)):
    return (t.__name__, v)
  if t in (list, tuple):
    return (t.__name__, tuple(canon(x, ordered) for x in v))
  if t is dict:
    items = tuple((canon(k, ordered), canon(x, ordered)) for k, x in v.items())
    return ('dict', items if ordered else frozenset(items))
  if t in (set, frozenset):
    return (t.__name__, frozenset(canon(x) for x in v))
  return ('obj', t.__module__, t.__qualname__, id(v))


def teq(a, b):
  try:
    return canon(a) == canon(b)
  except RecursionError:
    return False


def teq_unordered_dict(a, b):
  """teq, but top-level dict order ignored."""
  if type(a) is not dict or type(b) is not dict:
    return teq(a, b)
  return sorted(((canon(k), canon(v)) for k, v in a.items()), key=repr) == \
      sorted(((canon(k), canon(v)) for k, v in b.items()), key=repr)
