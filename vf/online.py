"""Online monitors attachable to ANY process that uses gin.

They watch the real library through sys.monitoring events on a handful of its functions (found by name; nothing in
/repo is edited) and assert trace properties as the host program runs.  Two hosts are used: the repository's own test
suite (vf/suiteplug.py, a pytest plugin) and the generated workloads of other checks (vf/foreign.py).  The point is
workload diversity: the same oracle, programs somebody else wrote.

Monitors (name -> property):
  scope    C09  at every exit (return / raise / BaseException) of a configurable's wrapper and of a config_scope block the
                thread's active scope is what it was at entry
  lock     C12  unlock_config restores the lock state it found, on every exit; finalize() leaves the config locked
  bind     C11  a bind_parameter() call that raises leaves the binding store exactly as it was
  inject   C01  what the wrapped function receives = caller's values over the prefix overlay of the binding store
                (reference model vf.models.overlay), other parameters left to the function's own defaults
  clear    C20  after clear_config() the observable state is the pristine one
  rt       C06  at the moment a program clears its configuration, that configuration's config_str() re-parses to itself
  rtop     C07  ... and its operative_config_str() parses

A monitor never raises into the host program: it records (key, message) and counts what it observed.
"""
import sys
import threading

MON = sys.monitoring
TOOL = 3
E = MON.events

_tls = threading.local()


def _busy():
  return getattr(_tls, 'busy', 0)


class _Busy:
  def __enter__(self):
    _tls.busy = _busy() + 1

  def __exit__(self, *a):
    _tls.busy -= 1


def _find_code(fn, name):
  """Code object called `name` nested (at any depth) in fn's code."""
  todo = [fn.__code__]
  while todo:
    co = todo.pop()
    for c in co.co_consts:
      if hasattr(c, 'co_code'):
        if c.co_name == name:
          return c
        todo.append(c)
  return None


def _plain(v, gc, depth=0):
  """True when the stored value is delivered as a deep copy of itself (no reference / macro inside)."""
  if isinstance(v, gc.ConfigurableReference) or type(v).__name__ == '_UnknownConfigurableReference':
    return False
  if isinstance(v, (list, tuple)):
    return all(_plain(x, gc, depth + 1) for x in v)
  if isinstance(v, dict):
    return all(_plain(k, gc, depth + 1) and _plain(x, gc, depth + 1) for k, x in v.items())
  return isinstance(v, (int, float, str, bytes, bool, type(None), complex))


class Online:

  def __init__(self, which):
    self.which = set(which)
    self.counters = {}
    self.violations = []
    self.vcounts = {}
    self.lock = threading.Lock()
    self.frames = {}          # id(frame) -> record  (entries removed at exit)
    self.cm_locked = {}       # id(context manager object) -> lock state at its __enter__ (class-based unlock_config)
    self.codes = {}
    self.installed = False
    self.pristine = None
    self.parse_failure_classifier = None   # (text, error message) -> violation key or None, for recorded findings
    self.rt_classifier = None   # (text, reparsed text, bound values) -> violation key or None: maps recorded findings onto their mechanism keys
    self.fn_codes = set()     # code objects of wrapped functions, given a local PY_START event when first seen

  # ------------------------------------------------------------------ bookkeeping
  def count(self, k, n=1):
    with self.lock:
      self.counters[k] = self.counters.get(k, 0) + n

  def violation(self, key, msg):
    with self.lock:
      self.vcounts[key] = self.vcounts.get(key, 0) + 1
      if self.vcounts[key] <= 3:
        self.violations.append({'key': key, 'msg': msg[:1500], 'where': getattr(_tls, 'label', None) or _LABEL[0]})

  def check(self, cond, key, msg):
    self.count('oracle_evals')
    if not cond:
      self.violation(key, msg)
    return cond

  def report(self):
    return {'counters': dict(self.counters), 'violations': list(self.violations), 'viol_counts': dict(self.vcounts)}

  # ------------------------------------------------------------------ install
  def install(self):
    import gin
    from gin import config as gc
    self.gin, self.gc = gin, gc
    C = self.codes
    want = {}
    if 'scope' in self.which or 'inject' in self.which:
      C['gin_wrapper'] = _find_code(gc._make_gin_wrapper, 'gin_wrapper')
      want[C['gin_wrapper']] = E.PY_START | E.PY_RETURN
    if 'scope' in self.which:
      C['config_scope'] = getattr(gc.config_scope, '__wrapped__', gc.config_scope).__code__
      want[C['config_scope']] = E.PY_START | E.PY_RETURN
    if 'lock' in self.which:
      uc = getattr(gc.unlock_config, '__wrapped__', gc.unlock_config)
      if hasattr(uc, '__code__'):
        C['unlock_config'] = uc.__code__
        want[C['unlock_config']] = E.PY_START | E.PY_RETURN
      else:
        # a class-based context manager: the lock state found is the one at __enter__, the state left the one after __exit__
        C['unlock_enter'] = uc.__enter__.__code__
        C['unlock_exit'] = uc.__exit__.__code__
        want[C['unlock_enter']] = E.PY_START
        want[C['unlock_exit']] = E.PY_START | E.PY_RETURN
      C['finalize'] = gc.finalize.__code__
      want[C['finalize']] = E.PY_RETURN
    if 'bind' in self.which:
      C['bind_parameter'] = gc.bind_parameter.__code__
      want[C['bind_parameter']] = E.PY_START | E.PY_RETURN
    if self.which & {'clear', 'rt', 'rtop'}:
      C['clear_config'] = gc.clear_config.__code__
      want[C['clear_config']] = E.PY_START | E.PY_RETURN
    want.pop(None, None)
    self.bycode = {co: name for name, co in C.items() if co is not None}
    MON.use_tool_id(TOOL, 'vf-online')
    MON.register_callback(TOOL, E.PY_START, self._on_start)
    MON.register_callback(TOOL, E.PY_RETURN, self._on_return)
    MON.register_callback(TOOL, E.PY_UNWIND, self._on_unwind)
    for co, ev in want.items():
      MON.set_local_events(TOOL, co, ev)
    MON.set_events(TOOL, E.PY_UNWIND)     # not available as a local event: filtered by code object in the callback
    self.want = want
    self.installed = True
    return self

  def uninstall(self):
    if not self.installed:
      return
    for co in list(self.want) + list(self.fn_codes):
      MON.set_local_events(TOOL, co, 0)
    MON.set_events(TOOL, 0)
    for ev in (E.PY_START, E.PY_RETURN, E.PY_UNWIND):
      MON.register_callback(TOOL, ev, None)
    MON.free_tool_id(TOOL)
    self.installed = False

  # ------------------------------------------------------------------ events
  def _scopes(self):
    return [list(s) for s in self.gc._SCOPE_MANAGER.active_scopes]

  def _on_start(self, code, offset):
    if _busy():
      return
    name = self.bycode.get(code)
    if name is None:
      # a wrapped function starts: decide by its caller frame whether Gin's wrapper is calling it
      frame = sys._getframe(1)
      back = frame.f_back
      rec = self.frames.get(id(back)) if back is not None else None
      if rec is None or rec.get('name') != 'gin_wrapper' or back.f_code is not self.codes.get('gin_wrapper') or rec.get('started'):
        return
      if getattr(rec.get('fn'), '__code__', None) is not code:
        return
      rec['started'] = True
      try:
        with _Busy():
          self._check_injected(rec, frame)
      except Exception as e:  # pylint: disable=broad-except
        self.count('monitor_errors')
        self.count('monitor_error:%s' % type(e).__name__)
      return
    frame = sys._getframe(1)
    with _Busy():
      try:
        rec = {'name': name, 'thread': threading.get_ident()}
        if name in ('gin_wrapper', 'config_scope'):
          rec['scopes'] = self._scopes()
        if name == 'gin_wrapper' and 'inject' in self.which:
          loc = frame.f_locals
          rec['args'] = tuple(loc.get('args', ()))
          rec['kwargs'] = dict(loc.get('kwargs', {}))
          rec['fn'] = loc.get('fn')
          rec['signature_fn'] = loc.get('signature_fn', loc.get('fn_or_cls'))
          rec['selector'] = loc.get('selector')
          rec['scope'] = list(self.gin.current_scope())
          rec['store'] = {k: dict(v) for k, v in self.gc._CONFIG.items()}
          fco = getattr(rec['fn'], '__code__', None)
          if fco is None or (fco.co_flags & 0x2A0):     # not a Python function / generator, coroutine: body starts later
            self.count('inject_skipped_not_plain_python_function')
          elif fco not in self.fn_codes and fco not in self.bycode:
            self.fn_codes.add(fco)
            MON.set_local_events(TOOL, fco, E.PY_START)
        if name == 'unlock_config':
          rec['locked'] = self.gin.config_is_locked()
        if name == 'unlock_enter':
          self.cm_locked[id(frame.f_locals.get('self'))] = self.gin.config_is_locked()
          return
        if name == 'unlock_exit':
          rec['cm'] = id(frame.f_locals.get('self'))
        if name == 'bind_parameter':
          rec['store'] = {k: dict(v) for k, v in self.gc._CONFIG.items()}
        if name == 'clear_config' and self.which & {'rt', 'rtop'}:
          self._roundtrip_before_clear()
        self.frames[id(frame)] = rec
      except Exception as e:  # pylint: disable=broad-except
        self.count('monitor_errors')
        self.count('monitor_error:%s' % type(e).__name__)

  def _on_return(self, code, offset, retval):
    self._exit(code, 'return')

  def _on_unwind(self, code, offset, exc):
    self._exit(code, 'raise-BaseException' if not isinstance(exc, Exception) else 'raise')

  def _exit(self, code, how):
    if _busy():
      return
    name = self.bycode.get(code)
    if name is None:
      return
    frame = sys._getframe(2)
    rec = self.frames.pop(id(frame), None)
    with _Busy():
      try:
        if name == 'finalize' and how == 'return':
          self.count('finalize_returns')
          self.check(self.gin.config_is_locked(), 'online:finalize-left-config-unlocked', 'finalize() returned with the config unlocked')
          return
        if rec is None or rec['thread'] != threading.get_ident():
          self.count('exit_without_entry')
          return
        if name in ('gin_wrapper', 'config_scope') and 'scope' in self.which:
          now = self._scopes()
          self.count('scope_exits:%s:%s' % (name, how))
          self.check(now == rec['scopes'], 'online:scope-not-restored:%s:%s' % (name, how),
                     'after %s left by %s the scope stack is %r, at entry it was %r' % (name, how, now, rec['scopes']))
        if name == 'unlock_exit':
          if rec['cm'] not in self.cm_locked:
            self.count('exit_without_entry')
            return
          rec['locked'] = self.cm_locked.pop(rec['cm'])
          name = 'unlock_config'
        if name == 'unlock_config':
          self.count('unlock_exits:%s' % how)
          self.check(self.gin.config_is_locked() == rec['locked'], 'online:unlock-did-not-restore-lock:%s' % how,
                     'unlock_config left by %s: locked=%r, at entry %r' % (how, self.gin.config_is_locked(), rec['locked']))
        if name == 'bind_parameter' and how != 'return':
          self.count('bind_rejections')
          now = {k: dict(v) for k, v in self.gc._CONFIG.items()}
          a = {k: {p: id(x) for p, x in v.items()} for k, v in now.items() if v}
          b = {k: {p: id(x) for p, x in v.items()} for k, v in rec['store'].items() if v}
          self.check(a == b, 'online:rejected-binding-changed-config', 'bind_parameter raised but the store changed: %r -> %r' % (
              sorted(b), sorted(a)))
        if name == 'clear_config' and how == 'return' and 'clear' in self.which:
          self._pristine_after_clear()
      except Exception as e:  # pylint: disable=broad-except
        self.count('monitor_errors')
        self.count('monitor_error:%s' % type(e).__name__)

  # ------------------------------------------------------------------ inject (C01)
  def _check_injected(self, rec, frame):
    import inspect
    from vf import models, teq
    gc = self.gc
    fn = rec['fn']
    co = frame.f_code
    loc = frame.f_locals
    npos = co.co_argcount
    names = list(co.co_varnames[:npos + co.co_kwonlyargcount])
    pos_names, kwonly = names[:npos], names[npos:]
    has_varargs = bool(co.co_flags & 0x04)
    has_varkw = bool(co.co_flags & 0x08)
    idx = npos + co.co_kwonlyargcount
    varargs_name = co.co_varnames[idx] if has_varargs else None
    varkw_name = co.co_varnames[idx + (1 if has_varargs else 0)] if has_varkw else None
    # Gin maps positional arguments through the signature of the registered object; when the callable it finally invokes is a
    # pass-through shim with another signature (classes constructed through __new__), this monitor cannot name what arrives.
    try:
      sig_names = list(inspect.signature(rec['signature_fn']).parameters)
    except Exception:  # pylint: disable=broad-except
      sig_names = None
    code_names = names[:npos] + ([varargs_name] if has_varargs else []) + kwonly + ([varkw_name] if has_varkw else [])
    if sig_names is None or (sig_names != code_names and sig_names != code_names[1:]):
      self.count('inject_skipped_signature_not_that_of_callee')
      return
    if sig_names != code_names and (inspect.ismethod(fn) or not (inspect.isfunction(fn) or inspect.isclass(fn))):
      # a bound method / callable object: its first parameter is bound, the caller's positional arguments start at the second one
      pos_names = pos_names[1:]
      npos -= 1
    received = {n: loc[n] for n in names if n in loc}
    extra_kw = dict(loc.get(varkw_name, {})) if has_varkw else {}
    extra_pos = tuple(loc.get(varargs_name, ())) if has_varargs else ()
    args, kwargs = rec['args'], rec['kwargs']
    selector = gc._RENAMED_SELECTORS.get(rec['selector'], rec['selector'])
    applicable = models.overlay(rec['store'], selector, rec['scope'])
    self.count('inject_calls')
    if rec['scope']:
      self.count('inject_calls_in_scope')
    if applicable:
      self.count('inject_calls_with_applicable_bindings')
    REQ = gc.REQUIRED
    sel = '%s under scope %r [fn(%s%s%s%s) called with %d positional and keywords %r]' % (
        selector, '/'.join(rec['scope']), ', '.join(pos_names), ', *' + varargs_name if has_varargs else '',
        ''.join(', %s=' % k for k in kwonly), ', **' + varkw_name if has_varkw else '', len(args), sorted(kwargs))
    # 1. the caller's positional values, unchanged and in place
    by_pos = list(args[:npos])
    for i, v in enumerate(by_pos):
      if v is REQ:
        continue
      self.check(received.get(pos_names[i], _MISSING) is v, 'online:caller-positional-changed',
                 '%s: positional #%d passed %r received %r' % (sel, i, v, received.get(pos_names[i], _MISSING)))
    rest = tuple(a for a in args[npos:])
    if has_varargs:
      self.check(len(rest) == len(extra_pos) and all(a is b for a, b in zip(rest, extra_pos)), 'online:caller-varargs-changed',
                 '%s: *args passed %r received %r' % (sel, rest, extra_pos))
    # 2. the caller's keyword values, unchanged
    for k, v in kwargs.items():
      if v is REQ:
        continue
      got = received[k] if k in received else extra_kw.get(k, _MISSING)
      self.check(got is v, 'online:caller-keyword-changed', '%s: %s=%r passed, received %r' % (sel, k, v, got))
    # 3. every other parameter with an applicable binding receives the bound value
    supplied = set(pos_names[:len(by_pos)]) | set(kwargs)
    req_marked = {pos_names[i] for i, v in enumerate(by_pos) if v is REQ} | {k for k, v in kwargs.items() if v is REQ}
    for p, bound in applicable.items():
      if p in supplied and p not in req_marked:
        continue
      if p in received:
        got = received[p]
      elif has_varkw and p in extra_kw:
        got = extra_kw[p]
      else:
        got = _MISSING
      if not self.check(got is not _MISSING, 'online:bound-parameter-not-delivered', '%s: %s is bound to %r but was not passed' % (sel, p, bound)):
        continue
      if _plain(bound, gc):
        self.count('inject_plain_values_compared')
        self.check(teq.canon(got) == teq.canon(bound), 'online:bound-value-differs', '%s: %s bound to %r, received %r' % (sel, p, bound, got))
      else:
        self.count('inject_reference_values_seen')
    # 4. parameters with neither: the function's own defaults (by identity), nothing invented
    try:
      sig_defaults = {}
      d = fn.__defaults__ or ()
      for n, v in zip(pos_names[npos - len(d):], d):
        sig_defaults[n] = v
      sig_defaults.update(fn.__kwdefaults__ or {})
    except Exception:  # pylint: disable=broad-except
      sig_defaults = {}
    for n, dv in sig_defaults.items():
      if n in supplied or n in applicable or n not in received:
        continue
      self.count('inject_defaults_compared')
      self.check(received[n] is dv, 'online:default-replaced-without-binding', '%s: %s has no caller value and no applicable binding; received %r, own default %r' % (
          sel, n, received[n], dv))
    for k in extra_kw:
      self.check(k in kwargs or k in applicable, 'online:invented-keyword', '%s: **kwargs received %s which neither the caller nor an applicable binding supplied' % (sel, k))

  # ------------------------------------------------------------------ clear (C20)
  def observe(self):
    gin, gc = self.gin, self.gc
    return {'config_str': gin.config_str(), 'operative': gin.operative_config_str(), 'locked': gin.config_is_locked(),
            'store': sorted(repr(k) for k, v in gc._CONFIG.items() if v), 'imports': sorted(s.module for s in gc._IMPORTS),
            'singletons': len(gc._SINGLETONS), 'provenance': sorted(repr(k) for k, v in gc._CONFIG_PROVENANCE.items() if v)}

  def _pristine_after_clear(self):
    if self.pristine is None:
      return
    self.count('clears_checked')
    now = self.observe()
    diff = {k: (now[k], self.pristine[k]) for k in now if now[k] != self.pristine[k]}
    self.check(not diff, 'online:state-left-after-clear', 'after clear_config(): %r (observed, pristine)' % (diff,))

  # ------------------------------------------------------------------ rt (C06 / C07)
  def _roundtrip_before_clear(self):
    gin, gc = self.gin, self.gc
    if len(getattr(gc, '_PARSE_CONTEXTS', [])) > 1:
      return        # clear_config() called from inside a parse: not a quiescent point
    try:
      s = gin.config_str()
      o = gin.operative_config_str()
    except ImportError as e:
      # under dynamic registration the string imports the module a Python-registered object claims to live in; generated probes claim
      # modules that do not exist (exec'd code): the host's doing, not Gin's
      self.count('roundtrips_skipped_object_claims_unimportable_module')
      return
    except Exception as e:  # pylint: disable=broad-except
      self.check(False, 'online:config-str-raised', 'config_str()/operative_config_str() raised %r' % (e,))
      return
    if not s.strip() and not o.strip():
      return
    self.count('roundtrips_attempted')
    values = [v for d in gc._CONFIG.values() for v in d.values()]
    out = []
    for label, text in (('config_str', s), ('operative_config_str', o)):
      if not text.strip() or ('rt' if label == 'config_str' else 'rtop') not in self.which:
        continue
      try:
        gc.clear_config(clear_constants=False)
        gin.parse_config(text)
        again = gin.config_str()
      except Exception as e:  # pylint: disable=broad-except
        out.append((label, 'raised', '%s: %s' % (type(e).__name__, str(e)[:300]), text))
        continue
      if label == 'config_str':
        self.count('roundtrips_config_str')
        if again != text:
          out.append((label, 'differs', again, text))
      else:
        self.count('roundtrips_operative')
    try:
      gc.clear_config(clear_constants=False)
    except Exception:  # pylint: disable=broad-except
      pass
    for label, what, detail, text in out:
      self.count('oracle_evals')
      key = 'online:%s-%s' % (label, 'does-not-parse' if what == 'raised' else 'roundtrip-differs')
      if what == 'differs' and self.rt_classifier is not None:
        key = self.rt_classifier(text, detail, values) or key
      if what == 'raised' and self.parse_failure_classifier is not None:
        key = self.parse_failure_classifier(text, detail) or key
      self.violation(key, '%s\n--- text\n%s\n--- %s\n%s' % (label, text[:700], what, detail[:700]))
    self.count('oracle_evals', 2)


_MISSING = type('Missing', (), {'__repr__': lambda self: '<not received>'})()
_LABEL = [None]


def set_label(label):
  _LABEL[0] = label
