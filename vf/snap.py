"""Observation helpers: parse a config text with the *real* parser into plain data; snapshot the configuration."""
from vf.teq import canon


def parse_text(text):
  """{(scope, selector, arg): value}, imports, includes — via gin's own ConfigParser and a recording delegate."""
  from gin import config_parser

  class Rec(config_parser.ParserDelegate):

    def configurable_reference(self, name, evaluate):
      return ('@ref', name, bool(evaluate))

    def macro(self, name):
      return ('%macro', name)

  bindings, imports, includes, order = {}, [], [], []
  for st in config_parser.ConfigParser(text, Rec()):
    if isinstance(st, config_parser.BindingStatement):
      bindings[(st.scope, st.selector, st.arg_name)] = st.value
      order.append((st.scope, st.selector, st.arg_name))
    elif isinstance(st, config_parser.ImportStatement):
      imports.append((st.module, st.is_from, st.alias))
    elif isinstance(st, config_parser.IncludeStatement):
      includes.append(st.filename)
  return bindings, imports, includes, order


def store(gc=None):
  """Canonical (hashable, typed) copy of the binding store."""
  if gc is None:
    from gin import config as gc
  return {k: {a: canon(v) for a, v in d.items()} for k, d in gc._CONFIG.items() if d or True}


def store_nonempty(gc=None):
  return {k: v for k, v in store(gc).items() if v}


def full(gin):
  """Public + private snapshot used for 'configuration unchanged' oracles."""
  from gin import config as gc
  return {
      'config': store_nonempty(gc),
      'locked': gin.config_is_locked(),
      'scope': tuple(gin.current_scope()),
      'config_str': _safe(gin.config_str),
      'provenance': {k: dict(v) for k, v in gc._CONFIG_PROVENANCE.items() if v},
      'contexts': len(gc._PARSE_CONTEXTS),
  }


def _safe(fn):
  try:
    return fn()
  except Exception as e:  # pylint: disable=broad-except
    return 'RAISED %s' % type(e).__name__


def diff(a, b):
  return {k: (a.get(k), b.get(k)) for k in set(a) | set(b) if a.get(k) != b.get(k)}
