#!/usr/bin/env python3
"""Re-run every kept seeded change against the current /repo and the current checks (4 at a time).
usage: tools/reverify_seeds.py [--thorough] [name-prefix ...]   exit 0 iff every seed applies, keeps the suite green, fails its demo and is caught."""
import concurrent.futures, json, os, subprocess, sys
V = os.path.dirname(os.path.dirname(os.path.abspath(__file__)))
args = [a for a in sys.argv[1:] if not a.startswith('--')]
names = sorted(n for n in os.listdir(os.path.join(V, 'seeded')) if not args or any(n.startswith(a) for a in args))

def one(name):
  d = os.path.join(V, 'seeded', name)
  meta = json.load(open(os.path.join(d, 'meta.json')))
  checks = ','.join(k for k, v in meta['verified']['checks'].items() if v['caught']) or meta['property']
  r = subprocess.run([sys.executable, os.path.join(V, 'tools', 'seedcheck.py'), d, '--checks=' + checks] + [a for a in sys.argv[1:] if a == '--thorough'],
                     capture_output=True, text=True)
  try:
    res = json.loads(r.stdout)
  except Exception:
    return name, False, 'seedcheck failed: ' + (r.stdout + r.stderr)[-300:]
  ok = res['applies'] and res.get('suite_passes') and res['demo_with_change'] == 1 and res['demo_unchanged'] == 0 and all(v['caught'] for v in res['checks'].values())
  return name, ok, {k: v['caught'] for k, v in res.get('checks', {}).items()} if res['applies'] else 'patch no longer applies'

bad = 0
with concurrent.futures.ThreadPoolExecutor(4) as ex:
  for name, ok, info in ex.map(one, names):
    print('%-62s %s %s' % (name, 'ok' if ok else 'PROBLEM', info)); sys.stdout.flush()
    bad += not ok
print('%d seeds, %d problems' % (len(names), bad))
sys.exit(1 if bad else 0)
