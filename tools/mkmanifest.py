#!/usr/bin/env python3
"""Regenerate MANIFEST.json from the check modules that exist (keeps it valid at all times)."""
import json, os, sys, importlib, glob
V = os.path.dirname(os.path.dirname(os.path.abspath(__file__)))
sys.path.insert(0, V)
props = [json.loads(l) for l in open(os.path.join(V, 'properties.jsonl'))]
NA = json.load(open(os.path.join(V, 'tools', 'not_applicable.json'))) if os.path.exists(os.path.join(V, 'tools', 'not_applicable.json')) else {}
checks, claimed = [], []
for p in props:
  pid = p['id']
  path = os.path.join(V, 'vf', 'checks', pid.lower() + '.py')
  if not os.path.exists(path) or pid in NA:
    continue
  m = importlib.import_module('vf.checks.' + pid.lower())
  if not getattr(m, 'LEVEL_TEXT', None):
    continue
  claimed.append(pid)
  checks.append({
      'property_id': pid,
      'quick_cmd': '/venv/bin/python -m vf.run %s --tier quick' % pid,
      'thorough_cmd': '/venv/bin/python -m vf.run %s --tier thorough' % pid,
      'evidence_file': 'evidence/%s.json' % pid,
      'replay_cmd_template': '/venv/bin/python -m vf.run %s --replay {path}' % pid,
      'engine': 'vf',
      'level_claimed': {'category': m.LEVEL, 'text': m.LEVEL_TEXT, 'design_ref': m.DESIGN_REF},
      'level_note': m.LEVEL_NOTE,
      'technique': m.TECHNIQUE,
  })
hooks_commits = json.load(open(os.path.join(V, 'tools', 'hook_commits.json'))) if os.path.exists(os.path.join(V, 'tools', 'hook_commits.json')) else []
man = {
    'version': 1,
    'setup_cmd': '/venv/bin/python -m vf.run --selfcheck',
    'hooks': {
        'guard': 'GIN_CONFIG_VERIF',
        'enable': 'no source hooks are needed: monitors observe through the public API, generated probe configurables, read-only module stores and sys.monitoring events; the guard name is reserved and unused',
        'baseline_off_cmd': 'cd /repo && /venv/bin/python -m pytest -ra -q -p no:cacheprovider --timeout=900 --continue-on-collection-errors',
        'source_commits': hooks_commits,
        'add_only': True,
    },
    'engines': [{'name': 'vf', 'path': 'vf/', 'serves_properties': claimed,
                 'kind_free_text': 'runtime monitors: generated and hostile workloads drive the real gin package in fresh subprocess workers; reference-model, differential (CPython) and metamorphic oracles; sys.monitoring cooperative scheduler for thread schedules; fault injection'}],
    'checks': checks,
    'notes': 'All checks: cwd=/verif, honour VERIF_SEED / VERIF_TIER / VERIF_REPO, exit 0 held / 1 VIOLATION / 2 INCONCLUSIVE. Known findings: known_findings.json. See DESIGN.md.',
    'not_applicable': [{'property_id': p['id'], 'reason': NA.get(p['id'], 'check under construction (runtime monitor planned in DESIGN.md section 4); not yet claimed')}
                       for p in props if p['id'] not in claimed],
}
json.dump(man, open(os.path.join(V, 'MANIFEST.json'), 'w'), indent=1)
print('claimed:', claimed)
