#!/usr/bin/env python3
"""Run the repository's pinned suite (guard off) and compare with BASELINE.json's stable_pass set.

usage: tools/baseline.py [repo_root]   exit 0 iff every stable_pass test passes.
"""
import json, subprocess, sys, tempfile, os
import xml.etree.ElementTree as ET
root = sys.argv[1] if len(sys.argv) > 1 else '/repo'
base = json.load(open('/root/.vp/BASELINE.json'))
with tempfile.TemporaryDirectory(prefix='vf-bl-') as d:
  x = os.path.join(d, 'j.xml')
  env = dict(os.environ); env.pop('GIN_CONFIG_VERIF', None)
  subprocess.run(['/venv/bin/python', '-m', 'pytest', '-ra', '-q', '-p', 'no:cacheprovider', '--timeout=900',
                  '--continue-on-collection-errors', '--junitxml=' + x], cwd=root, env=env,
                 stdout=subprocess.DEVNULL, stderr=subprocess.DEVNULL)
  passed = set()
  for tc in ET.parse(x).getroot().iter('testcase'):
    if not any(c.tag in ('failure', 'error', 'skipped') for c in tc):
      passed.add(tc.get('classname') + '::' + tc.get('name'))
missing = sorted(set(base['stable_pass']) - passed)
print('baseline: %d/%d stable tests pass' % (len(base['stable_pass']) - len(missing), len(base['stable_pass'])))
for m in missing: print('  NOT PASSING:', m)
sys.exit(1 if missing else 0)
