#!/usr/bin/env python3
"""Print the markdown table 'which check catches which seeded change' from seeded/*/meta.json."""
import json, os
V = os.path.dirname(os.path.dirname(os.path.abspath(__file__)))
rows = []
for n in sorted(os.listdir(os.path.join(V, 'seeded'))):
  m = json.load(open(os.path.join(V, 'seeded', n, 'meta.json')))
  caught = [k for k, v in m['verified']['checks'].items() if v['caught']]
  first = {k: v['first_key'].split(' count=')[0].replace('key=', '') for k, v in m['verified']['checks'].items() if v['caught']}
  hist = m.get('history', '')
  rows.append('| %s | %s | %s | %s | %s |' % (n, m['property'], m.get('needs', '')[:150].replace('|', '/').replace('\n', ' '), ', '.join('%s (%s)' % (k, first[k][:60]) for k in caught),
                                            'missed at first: ' + hist[:220].replace('|', '/') if hist else 'caught at first run'))
print('| seeded change | property | needs | caught by (first violation key) | history |\n|---|---|---|---|---|')
print('\n'.join(rows))
