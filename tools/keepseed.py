#!/usr/bin/env python3
"""Verify a sub-agent's seeded change (tools/seedcheck.py) and keep it under seeded/<name>/ with what was run.
usage: tools/keepseed.py <src dir> <name> [--checks=C01,C09] [--first-missed="note"]"""
import json, os, shutil, subprocess, sys
V = os.path.dirname(os.path.dirname(os.path.abspath(__file__)))
src, name = os.path.abspath(sys.argv[1]), sys.argv[2]
extra = sys.argv[3:]
checks = [a for a in extra if a.startswith('--checks')]
note = [a.split('=', 1)[1] for a in extra if a.startswith('--first-missed=')]
r = subprocess.run([sys.executable, os.path.join(V, 'tools', 'seedcheck.py'), src] + checks, capture_output=True, text=True)
res = json.loads(r.stdout)
ok = res['applies'] and res.get('suite_passes') and res['demo_with_change'] == 1 and res['demo_unchanged'] == 0
dst = os.path.join(V, 'seeded', name)
if not ok:
  print('NOT KEPT', name, {k: res.get(k) for k in ('applies', 'suite_passes', 'demo_with_change', 'demo_unchanged')}); sys.exit(1)
os.makedirs(dst, exist_ok=True)
for f in ('patch.diff', 'demo.py'):
  shutil.copy(os.path.join(src, f), os.path.join(dst, f))
meta = json.load(open(os.path.join(src, 'meta.json')))
meta['origin'] = 'independent sub-agent given only the property text and a scratch worktree'
meta['verified'] = {
    'applied_to': 'scratch copy of /repo at %s' % subprocess.run(['git', '-C', '/repo', 'rev-parse', '--short', 'HEAD'], capture_output=True, text=True).stdout.strip(),
    'repository_suite_with_change': 'passes (128 stable tests)' if res['suite_passes'] else res['suite_last'],
    'demo_exit_with_change': res['demo_with_change'], 'demo_exit_unchanged_tree': res['demo_unchanged'],
    'commands': ['patch -p1 < patch.diff (scratch copy)', 'pytest tests/ (6 always-failing deselected)', 'PYTHONPATH=<scratch> /venv/bin/python demo.py',
                 'VERIF_REPO=<scratch> /venv/bin/python -m vf.run <check> --tier quick'],
    'checks': {k: {'caught': v['caught'], 'first_key': (v['keys'] or [''])[0]} for k, v in res['checks'].items()},
}
if note:
  meta['history'] = note[0]
json.dump(meta, open(os.path.join(dst, 'meta.json'), 'w'), indent=1)
print('kept', name, {k: v['caught'] for k, v in res['checks'].items()})
