#!/usr/bin/env python3
"""Run every claimed check (quick or thorough) and print one line each.  usage: tools/runall.py [quick|thorough] [seed]"""
import json, os, subprocess, sys, time
V = os.path.dirname(os.path.dirname(os.path.abspath(__file__)))
tier = sys.argv[1] if len(sys.argv) > 1 else 'quick'
seed = sys.argv[2] if len(sys.argv) > 2 else '0'
man = json.load(open(os.path.join(V, 'MANIFEST.json')))
bad = 0
for c in man['checks']:
  cmd = c['quick_cmd'] if tier == 'quick' else c['thorough_cmd']
  t = time.time()
  r = subprocess.run(cmd, shell=True, cwd=V, env=dict(os.environ, VERIF_SEED=seed), capture_output=True, text=True)
  last = [l for l in r.stdout.splitlines() if l.startswith(c['property_id'] + ' tier')]
  kf = sum(1 for l in r.stdout.splitlines() if l.startswith('KNOWN-FINDING'))
  print('%s rc=%d %5.1fs kf=%d %s' % (c['property_id'], r.returncode, time.time() - t, kf, last[0] if last else r.stdout[-300:] + r.stderr[-300:]))
  if r.returncode:
    bad += 1
    print('\n'.join(l[:300] for l in r.stdout.splitlines() if 'VIOLATION' in l or 'INCONCLUSIVE' in l or l.strip().startswith('key='))[:1500])
  sys.stdout.flush()
sys.exit(1 if bad else 0)
