#!/usr/bin/env python3
"""Evaluate a seeded property-breaking change produced by an independent sub-agent.

usage: tools/seedcheck.py <dir with patch.diff demo.py meta.json> [--checks C07,C18] [--thorough] [--all]
Steps (all on a scratch copy of /repo outside /repo and /verif, removed afterwards):
  1. apply patch.diff;  2. the repository's suite must still pass (128 stable tests);
  3. demo.py must exit 1 with the change and 0 on the unchanged tree;
  4. run the owning check(s) with VERIF_REPO=<scratch>: exit 1 + VIOLATION expected.
"""
import json, os, shutil, subprocess, sys, tempfile
V = os.path.dirname(os.path.dirname(os.path.abspath(__file__)))
sys.path.insert(0, V)
from vf import selftest

def main():
  d = os.path.abspath(sys.argv[1])
  args = sys.argv[2:]
  meta = json.load(open(os.path.join(d, 'meta.json')))
  checks = [meta['property']]
  for a in args:
    if a.startswith('--checks'):
      checks = a.split('=', 1)[1].split(',')
  if '--all' in args:
    checks = ['C%02d' % i for i in range(1, 21)]
  tier = 'thorough' if '--thorough' in args else 'quick'
  scratch = selftest.make_scratch()
  out = {'dir': d, 'property': meta['property']}
  try:
    r = subprocess.run(['patch', '-p1', '-s', '-i', os.path.join(d, 'patch.diff')], cwd=scratch, capture_output=True, text=True)
    out['applies'] = r.returncode == 0
    if not out['applies']:
      print(json.dumps(out), r.stdout[-300:], r.stderr[-300:]); return 2
    if '--nosuite' not in args:
      ok, last = selftest.run_suite(scratch)
      out['suite_passes'] = ok
      out['suite_last'] = last
    demo = os.path.join(d, 'demo.py')
    # (the demonstrations were written by sub-agents; some leave temporary files behind: they get a directory of their own, removed afterwards)
    demo_tmp = tempfile.mkdtemp(prefix='vf-demo-')
    try:
      r1 = subprocess.run(['/venv/bin/python', demo], env=dict(os.environ, PYTHONPATH=scratch, TMPDIR=demo_tmp), capture_output=True, text=True, timeout=600, cwd=demo_tmp)
      r0 = subprocess.run(['/venv/bin/python', demo], env=dict(os.environ, PYTHONPATH='/repo', TMPDIR=demo_tmp), capture_output=True, text=True, timeout=600, cwd=demo_tmp)
    finally:
      shutil.rmtree(demo_tmp, ignore_errors=True)
    out['demo_with_change'] = r1.returncode
    out['demo_unchanged'] = r0.returncode
    out['checks'] = {}
    for pid in checks:
      r = subprocess.run(['/venv/bin/python', '-m', 'vf.run', pid, '--tier', tier], cwd=V, env=dict(os.environ, VERIF_REPO=scratch), capture_output=True, text=True)
      keys = [l.strip()[:160] for l in r.stdout.splitlines() if l.strip().startswith('key=')]
      out['checks'][pid] = {'rc': r.returncode, 'caught': r.returncode == 1 and 'VIOLATION property=%s' % pid in r.stdout, 'keys': keys[:3],
                            'tail': '' if r.returncode == 1 else r.stdout.strip().splitlines()[-1][:200] if r.stdout.strip() else r.stderr[-200:]}
    print(json.dumps(out, indent=1))
    return 0
  finally:
    shutil.rmtree(scratch, ignore_errors=True)

if __name__ == '__main__':
  sys.exit(main())
