#!/usr/bin/env python3
"""Seed sweep: tools/sweep.py <tier> <seed_from> <seed_to> [PID ...] — runs each claimed check per seed in fresh processes, prints non-zero exits."""
import json, os, subprocess, sys, time
V = os.path.dirname(os.path.dirname(os.path.abspath(__file__)))
tier, a, b = sys.argv[1], int(sys.argv[2]), int(sys.argv[3])
only = [x.upper() for x in sys.argv[4:]]
man = json.load(open(os.path.join(V, 'MANIFEST.json')))
bad = 0
for seed in range(a, b + 1):
  for c in man['checks']:
    if only and c['property_id'] not in only:
      continue
    cmd = c['quick_cmd'] if tier == 'quick' else c['thorough_cmd']
    t = time.time()
    r = subprocess.run(cmd, shell=True, cwd=V, env=dict(os.environ, VERIF_SEED=str(seed)), capture_output=True, text=True)
    if r.returncode:
      bad += 1
      print('SEED %d %s rc=%d %.0fs' % (seed, c['property_id'], r.returncode, time.time() - t))
      print('\n'.join(l[:400] for l in r.stdout.splitlines() if 'VIOLATION' in l or 'INCONCLUSIVE' in l or l.strip().startswith('key='))[:2500])
      sys.stdout.flush()
  print('seed %d done (%d problems so far)' % (seed, bad)); sys.stdout.flush()
sys.exit(1 if bad else 0)
