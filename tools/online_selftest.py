#!/usr/bin/env python3
"""How much do the online monitors (vf/online.py) catch on their own?

For every mutant of vf/mutants.json (and every kept seeded change) owned by a check with an ONLINE spec, run the check with its own
generated workload reduced to one case, so that only the repository's test suite and the other checks' generated cases remain as
workloads, and report whether an online:* violation is raised.   usage: tools/online_selftest.py [PID..] [--seeds]
"""
import json, os, shutil, subprocess, sys, glob
V = os.path.dirname(os.path.dirname(os.path.abspath(__file__)))
sys.path.insert(0, V)
from vf import selftest
ONLINE = ['C01', 'C06', 'C07', 'C09', 'C11', 'C12', 'C20']
want = [a.upper() for a in sys.argv[1:] if not a.startswith('--')] or ONLINE


def run(d, pid):
  r = subprocess.run(['/venv/bin/python', '-m', 'vf.run', pid, '--workers', '2', '--cases', '1'], cwd=V, env=dict(os.environ, VERIF_REPO=d),
                     capture_output=True, text=True)
  keys = sorted({l.strip().split()[0][4:] for l in r.stdout.splitlines() if l.strip().startswith('key=')})
  return [k for k in keys if k.startswith('online:')], keys


tot = hit = 0
for m in json.load(open(os.path.join(V, 'vf', 'mutants.json'))):
  for pid in m['checks']:
    if pid not in want:
      continue
    d = selftest.make_scratch()
    try:
      selftest.apply(d, m)
      on, keys = run(d, pid)
    finally:
      shutil.rmtree(d, ignore_errors=True)
    tot += 1; hit += bool(on)
    print('%-52s %s %-6s %s' % (m['name'], pid, 'ONLINE' if on else '-', (on or keys)[:3])); sys.stdout.flush()
if '--seeds' in sys.argv:
  for sd in sorted(glob.glob(os.path.join(V, 'seeded', '*'))):
    pid = os.path.basename(sd)[:3]
    if pid not in want:
      continue
    d = selftest.make_scratch()
    try:
      if subprocess.run(['patch', '-p1', '-s', '-i', os.path.join(sd, 'patch.diff')], cwd=d).returncode:
        print(os.path.basename(sd), 'does not apply'); continue
      on, keys = run(d, pid)
    finally:
      shutil.rmtree(d, ignore_errors=True)
    tot += 1; hit += bool(on)
    print('%-52s %s %-6s %s' % (os.path.basename(sd), pid, 'ONLINE' if on else '-', (on or keys)[:3])); sys.stdout.flush()
print('%d changes, %d caught by the online monitors alone' % (tot, hit))
